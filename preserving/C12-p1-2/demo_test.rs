//! Demo test for the cached puncturing/interleaving frame maps in the BER
//! simulation workers. Everything goes through the public BER test API with a
//! decoder factory that records the LLRs given to the decoder. Passes with and
//! without the change.

fn all_patterns(len: usize) -> Vec<Vec<bool>> {
    (1..(1u32 << len))
        .map(|mask| (0..len).map(|j| mask & (1 << j) != 0).collect())
        .collect()
}

#[test]
fn noiseless_chain_all_configurations() {
    // (24, 12) staircase code and (15, 6) code with a dense encoder
    for (h, pattern_lens) in [
        (make_h(12, 12, true), vec![1usize, 2, 3, 4]),
        (make_h(6, 9, false), vec![3usize, 5]),
    ] {
        let n_cw = h.num_cols();
        let mut patterns: Vec<Option<Vec<bool>>> = vec![None];
        for len in pattern_lens {
            patterns.extend(all_patterns(len).into_iter().map(Some));
        }
        for pattern in &patterns {
            let pattern = pattern.as_deref();
            let n = transmitted_mask(n_cw, pattern).iter().filter(|&&b| b).count();
            for interleaving in [None, Some(1), Some(-1), Some(2), Some(3), Some(-3), Some(4), Some(-5)] {
                if let Some(c) = interleaving {
                    if n % (c as isize).unsigned_abs() != 0 {
                        continue;
                    }
                }
                check_noiseless_chain(&h, Modulation::Bpsk, pattern, interleaving);
                if n % 3 == 0 {
                    check_noiseless_chain(&h, Modulation::Psk8, pattern, interleaving);
                }
            }
        }
    }
}

#[test]
fn several_ebn0s_and_reporter() {
    // The workers are created anew for each Eb/N0; each of them must get the
    // mapping right from its first frame.
    use ldpc_toolbox::simulation::ber::{Report, Reporter};
    let h = make_h(12, 12, true);
    let frames = Arc::new(Mutex::new(Vec::new()));
    let (tx, rx) = std::sync::mpsc::channel();
    let ebn0s = [40.0f32, 50.0, 45.0];
    let pattern = [true, false, true, true];
    let test = BerTestBuilder {
        h: h.clone(),
        decoder_implementation: CaptureFactory {
            frames: Arc::clone(&frames),
        },
        modulation: Modulation::Psk8,
        puncturing_pattern: Some(&pattern),
        interleaving_columns: Some(-3),
        max_frame_errors: 5,
        max_iterations: 3,
        ebn0s_db: &ebn0s,
        reporter: Some(Reporter {
            tx,
            interval: std::time::Duration::from_secs(3600),
        }),
        bch_max_errors: 0,
    }
    .build()
    .unwrap();
    assert_eq!((test.n(), test.n_cw(), test.k()), (18, 24, 12));
    assert!((test.rate() - 12.0 / 18.0).abs() < 1e-12);
    let stats = test.run().unwrap();
    assert_eq!(stats.len(), 3);
    let reports: Vec<Report> = rx.iter().collect();
    assert_eq!(reports.len(), 4);
    for (j, report) in reports.iter().take(3).enumerate() {
        match report {
            Report::Statistics(s) => {
                assert_eq!(s.ebn0_db, ebn0s[j]);
                assert_eq!(s.num_frames, stats[j].num_frames);
                assert_eq!(s.ldpc.bit_errors, stats[j].ldpc.bit_errors);
                assert_eq!(s.ldpc.frame_errors, stats[j].ldpc.frame_errors);
                assert!(s.bch.is_none());
            }
            Report::Finished => panic!("unexpected Finished report"),
        }
    }
    assert_eq!(reports[3], Report::Finished);
    let frames = frames.lock().unwrap();
    assert!(frames.len() >= 15);
    let mask = transmitted_mask(24, Some(&pattern));
    for llrs in frames.iter() {
        assert_eq!(llrs.len(), 24);
        let hard: Vec<u8> = llrs.iter().map(|&l| u8::from(l < 0.0)).collect();
        for (j, &l) in llrs.iter().enumerate() {
            assert_eq!(l == 0.0, !mask[j]);
        }
        for row in 0..h.num_rows() {
            if h.iter_row(row).all(|&c| mask[c]) {
                assert_eq!(h.iter_row(row).fold(0, |acc, &c| acc ^ hard[c]), 0);
            }
        }
    }
}

#[test]
fn error_classification() {
    let h = make_h(12, 12, true);
    // pattern length does not divide the codeword length: proper error
    let res = run_chain(&h, Modulation::Bpsk, Some(&[true; 5]), None, 40.0, 3);
    assert_eq!(
        res.error.as_deref(),
        Some("codeword size not divisible by puncturing pattern length")
    );
    assert!(res.frames.is_empty());
    let res = run_chain(&h, Modulation::Psk8, Some(&[true, false, true, true, true, true, true]), Some(3), 40.0, 3);
    assert_eq!(
        res.error.as_deref(),
        Some("codeword size not divisible by puncturing pattern length")
    );
    assert!(res.frames.is_empty());
    // the reported sizes come from the rounding formula in any case
    assert_eq!((res.n_cw, res.k), (24, 12));

    // interleaver columns do not divide the frame size: the workers panic
    let res = run_chain(&h, Modulation::Bpsk, None, Some(5), 40.0, 3);
    assert_eq!(res.error.as_deref(), Some("BER test worker thread panicked"));
    assert!(res.frames.is_empty());
    let res = run_chain(&h, Modulation::Bpsk, Some(&[true, true, false]), Some(-3), 40.0, 3);
    assert_eq!(res.error.as_deref(), Some("BER test worker thread panicked"));
    assert!(res.frames.is_empty());
    let res = run_chain(&h, Modulation::Bpsk, None, Some(0), 40.0, 3);
    assert_eq!(res.error.as_deref(), Some("BER test worker thread panicked"));
    assert!(res.frames.is_empty());

    // 8PSK with a frame size that is not a multiple of 3: the workers panic
    let res = run_chain(&h, Modulation::Psk8, Some(&[true, true, false]), Some(2), 40.0, 3);
    assert_eq!(res.error.as_deref(), Some("BER test worker thread panicked"));
    assert!(res.frames.is_empty());
    assert_eq!(res.n, 16);

    // everything punctured: the workers panic (division by zero in depuncture)
    for modulation in [Modulation::Bpsk, Modulation::Psk8] {
        let res = run_chain(&h, modulation, Some(&[false, false]), Some(2), 40.0, 3);
        assert_eq!(res.error.as_deref(), Some("BER test worker thread panicked"));
        assert!(res.frames.is_empty());
        assert_eq!(res.n, 0);
    }
}

#[test]
fn noise_statistics_bpsk() {
    // At Eb/N0 = 14 dB the hard decisions are right (except with negligible
    // probability), so the noise samples can be recovered from the LLRs.
    let h = make_h(12, 12, true);
    let pattern = [true, true, false, true];
    let ebn0_db = 14.0f32;
    let res = run_chain(&h, Modulation::Bpsk, Some(&pattern), Some(-6), ebn0_db, 600);
    assert_eq!(res.error, None);
    let mask = transmitted_mask(24, Some(&pattern));
    let ebn0 = 10.0_f64.powf(0.1 * f64::from(ebn0_db));
    let sigma2 = 0.5 / ((12.0 / 18.0) * ebn0);
    let mut count = 0.0;
    let mut sum = 0.0;
    let mut sum_sq = 0.0;
    let mut sum_adjacent = 0.0;
    for llrs in &res.frames {
        let mut previous = 0.0;
        for (j, &l) in llrs.iter().enumerate() {
            if !mask[j] {
                assert!(l == 0.0);
                continue;
            }
            // llr = -2 x / sigma^2 with x = +-1 + noise
            let x = -0.5 * sigma2 * l;
            let noise = x - x.signum();
            count += 1.0;
            sum += noise;
            sum_sq += noise * noise;
            sum_adjacent += noise * previous;
            previous = noise;
        }
    }
    assert!(count >= 600.0 * 18.0);
    let mean = sum / count;
    let variance = sum_sq / count;
    let sigma = sigma2.sqrt();
    assert!(mean.abs() < 6.0 * sigma / count.sqrt(), "noise mean {mean}");
    assert!(
        (variance / sigma2 - 1.0).abs() < 0.1,
        "noise variance {variance} instead of {sigma2}"
    );
    assert!(
        (sum_adjacent / count).abs() < 6.0 * sigma2 / count.sqrt(),
        "noise samples are correlated"
    );
}
// ---------------------------------------------------------------------------
// Common harness: runs a BER test through the public API with a decoder
// factory that records every LLR vector handed to the decoder.
// ---------------------------------------------------------------------------

use ldpc_toolbox::decoder::factory::DecoderFactory;
use ldpc_toolbox::decoder::{DecoderOutput, LdpcDecoder};
use ldpc_toolbox::encoder::Encoder;
use ldpc_toolbox::gf2::GF2;
use ldpc_toolbox::simulation::factory::{BerTestBuilder, Modulation};
use ldpc_toolbox::sparse::SparseMatrix;
use num_traits::{One, Zero};
use std::sync::{Arc, Mutex};

#[derive(Debug, Clone)]
struct CaptureFactory {
    frames: Arc<Mutex<Vec<Vec<f64>>>>,
}

impl std::fmt::Display for CaptureFactory {
    fn fmt(&self, f: &mut std::fmt::Formatter<'_>) -> std::fmt::Result {
        write!(f, "capture")
    }
}

impl DecoderFactory for CaptureFactory {
    fn build_decoder(&self, _h: SparseMatrix) -> Box<dyn LdpcDecoder> {
        Box::new(CaptureDecoder {
            frames: Arc::clone(&self.frames),
        })
    }
}

#[derive(Debug)]
struct CaptureDecoder {
    frames: Arc<Mutex<Vec<Vec<f64>>>>,
}

impl LdpcDecoder for CaptureDecoder {
    fn decode(
        &mut self,
        llrs: &[f64],
        max_iterations: usize,
    ) -> Result<DecoderOutput, DecoderOutput> {
        self.frames.lock().unwrap().push(llrs.to_vec());
        // Return the complement of the hard decision, so that every frame is a
        // frame error and the BER test terminates quickly.
        let codeword = llrs.iter().map(|&l| u8::from(l >= 0.0)).collect();
        Err(DecoderOutput {
            codeword,
            iterations: max_iterations,
        })
    }
}

/// Parity check matrix [A | T] with `m` rows and `k + m` columns. A is a fixed
/// pseudo-random matrix with column weight 3 and T is either a staircase
/// (dual-diagonal) matrix or a lower triangular matrix with some extra
/// entries (which forces the dense encoder).
fn make_h(k: usize, m: usize, staircase: bool) -> SparseMatrix {
    let mut h = SparseMatrix::new(m, k + m);
    let mut state = 0x2545f491u32;
    let mut next = || {
        state ^= state << 13;
        state ^= state >> 17;
        state ^= state << 5;
        state as usize
    };
    for col in 0..k {
        let mut placed = 0;
        while placed < 3.min(m) {
            let row = next() % m;
            if !h.contains(row, col) {
                h.insert(row, col);
                placed += 1;
            }
        }
    }
    for j in 0..m {
        h.insert(j, k + j);
        if j > 0 {
            h.insert(j, k + j - 1);
        }
        if !staircase && j >= 3 && j % 2 == 1 {
            h.insert(j, k + j - 3);
        }
    }
    h
}

struct ChainResult {
    frames: Vec<Vec<f64>>,
    n: usize,
    n_cw: usize,
    k: usize,
    rate: f64,
    num_frames: u64,
    error: Option<String>,
}

fn run_chain(
    h: &SparseMatrix,
    modulation: Modulation,
    pattern: Option<&[bool]>,
    interleaving: Option<isize>,
    ebn0_db: f32,
    max_frame_errors: u64,
) -> ChainResult {
    let frames = Arc::new(Mutex::new(Vec::new()));
    let ebn0s = [ebn0_db];
    let test = BerTestBuilder {
        h: h.clone(),
        decoder_implementation: CaptureFactory {
            frames: Arc::clone(&frames),
        },
        modulation,
        puncturing_pattern: pattern,
        interleaving_columns: interleaving,
        max_frame_errors,
        max_iterations: 7,
        ebn0s_db: &ebn0s,
        reporter: None,
        bch_max_errors: 0,
    }
    .build()
    .expect("building the BER test failed");
    let (n, n_cw, k, rate) = (test.n(), test.n_cw(), test.k(), test.rate());
    let (num_frames, error) = match test.run() {
        Ok(stats) => {
            assert_eq!(stats.len(), 1);
            assert_eq!(stats[0].ebn0_db, ebn0_db);
            // the decoder gets wrong every information bit that was not
            // punctured, so (nearly) every frame is a frame error
            assert!(stats[0].ldpc.frame_errors >= max_frame_errors);
            assert!(stats[0].ldpc.frame_errors <= stats[0].num_frames);
            assert!(stats[0].ldpc.bit_errors >= stats[0].ldpc.frame_errors);
            assert!(stats[0].ldpc.bit_errors <= stats[0].num_frames * k as u64);
            assert_eq!(stats[0].total_iterations, stats[0].num_frames * 7);
            assert_eq!(stats[0].false_decodes, 0);
            assert!(stats[0].num_frames >= max_frame_errors);
            (stats[0].num_frames, None)
        }
        Err(e) => (0, Some(e.to_string())),
    };
    let frames = std::mem::take(&mut *frames.lock().unwrap());
    ChainResult {
        frames,
        n,
        n_cw,
        k,
        rate,
        num_frames,
        error,
    }
}

/// Expands a block puncturing pattern to a per-bit "transmitted" mask.
fn transmitted_mask(n_cw: usize, pattern: Option<&[bool]>) -> Vec<bool> {
    match pattern {
        None => vec![true; n_cw],
        Some(p) => {
            assert_eq!(n_cw % p.len(), 0);
            let block = n_cw / p.len();
            (0..n_cw).map(|j| p[j / block]).collect()
        }
    }
}

fn bits_per_symbol(modulation: Modulation) -> f64 {
    match modulation {
        Modulation::Bpsk => 1.0,
        Modulation::Psk8 => 3.0,
    }
}

/// Checks everything that the BER chain promises about the frames given to
/// the decoder in a (nearly) noiseless run.
fn check_noiseless_chain(
    h: &SparseMatrix,
    modulation: Modulation,
    pattern: Option<&[bool]>,
    interleaving: Option<isize>,
) {
    let ebn0_db = 40.0f32;
    let what = format!("{modulation} pattern {pattern:?} interleaving {interleaving:?}");
    let res = run_chain(h, modulation, pattern, interleaving, ebn0_db, 12);
    assert_eq!(res.error, None, "{what}");
    let n_cw = h.num_cols();
    let k = h.num_cols() - h.num_rows();
    let mask = transmitted_mask(n_cw, pattern);
    let n = mask.iter().filter(|&&b| b).count();
    assert_eq!(res.n_cw, n_cw, "{what}");
    assert_eq!(res.k, k, "{what}");
    assert_eq!(res.n, n, "{what}");
    assert!((res.rate - k as f64 / n as f64).abs() < 1e-12, "{what}");
    assert!(res.frames.len() as u64 >= res.num_frames, "{what}");
    assert!(res.frames.len() >= 12, "{what}");

    let ebn0 = 10.0_f64.powf(0.1 * f64::from(ebn0_db));
    let esn0 = (k as f64 / n as f64) * bits_per_symbol(modulation) * ebn0;
    let sigma2 = 0.5 / esn0;
    let encoder = Encoder::from_h(h).unwrap();
    let systematic_transmitted = mask[..k].iter().all(|&b| b);
    let mut distinct = std::collections::HashSet::new();

    for llrs in &res.frames {
        assert_eq!(llrs.len(), n_cw, "{what}");
        for (j, &l) in llrs.iter().enumerate() {
            if mask[j] {
                assert!(l.is_finite() && l != 0.0, "{what}: position {j} llr {l}");
                let normalized = l.abs() * sigma2;
                match modulation {
                    Modulation::Bpsk => {
                        assert!((normalized - 2.0).abs() < 0.2, "{what}: scale {normalized}")
                    }
                    Modulation::Psk8 => {
                        assert!(normalized > 0.2 && normalized < 1.2, "{what}: scale {normalized}")
                    }
                }
            } else {
                assert!(l == 0.0, "{what}: punctured position {j} has llr {l}");
            }
        }
        let hard: Vec<u8> = llrs.iter().map(|&l| u8::from(l < 0.0)).collect();
        // parity checks that do not involve punctured bits must be satisfied
        for row in 0..h.num_rows() {
            if h.iter_row(row).all(|&c| mask[c]) {
                let parity = h.iter_row(row).fold(0, |acc, &c| acc ^ hard[c]);
                assert_eq!(parity, 0, "{what}: parity check {row} fails for {hard:?}");
            }
        }
        if systematic_transmitted {
            let message = ndarray::Array1::from_iter(hard[..k].iter().map(|&b| {
                if b == 1 { GF2::one() } else { GF2::zero() }
            }));
            let codeword = encoder.encode(&message);
            for j in 0..n_cw {
                if mask[j] {
                    assert_eq!(
                        hard[j],
                        u8::from(codeword[j].is_one()),
                        "{what}: position {j} is not the bit of the systematic codeword"
                    );
                }
            }
        }
        distinct.insert(hard);
    }
    // the messages are random: for k >= 6 and >= 12 frames they cannot all coincide
    assert!(distinct.len() > 1, "{what}: all the frames carry the same codeword");
}
