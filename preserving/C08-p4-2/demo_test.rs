// Demonstration for property C08: alist text and matrices round-trip
// losslessly and the alist parser is total.
//
// Everything here is deterministic (fixed-seed generator), single threaded and
// purely computational, so it cannot hang. Only the public API of the crate is
// used. The expected alist text and the expected parse result are computed by
// an independent model written in this file.

use ldpc_toolbox::sparse::SparseMatrix;
use std::collections::BTreeSet;
use std::panic::{catch_unwind, AssertUnwindSafe};

// ---------------------------------------------------------------- generator

struct Gen(u64);

impl Gen {
    fn next(&mut self) -> u64 {
        // splitmix64
        self.0 = self.0.wrapping_add(0x9e37_79b9_7f4a_7c15);
        let mut z = self.0;
        z = (z ^ (z >> 30)).wrapping_mul(0xbf58_476d_1ce4_e5b9);
        z = (z ^ (z >> 27)).wrapping_mul(0x94d0_49bb_1331_11eb);
        z ^ (z >> 31)
    }

    fn below(&mut self, n: usize) -> usize {
        assert!(n > 0);
        (self.next() % n as u64) as usize
    }

    fn chance(&mut self, num: usize, den: usize) -> bool {
        self.below(den) < num
    }

    fn pick<'a>(&mut self, items: &[&'a str]) -> &'a str {
        items[self.below(items.len())]
    }
}

// -------------------------------------------------------------------- model

type Ones = BTreeSet<(usize, usize)>;

fn join(values: &[usize]) -> String {
    values
        .iter()
        .map(|v| v.to_string())
        .collect::<Vec<_>>()
        .join(" ")
}

// The alist text that the format prescribes for a matrix.
fn model_alist(nrows: usize, ncols: usize, ones: &Ones, padding: bool) -> String {
    let mut by_col = vec![Vec::new(); ncols];
    let mut by_row = vec![Vec::new(); nrows];
    // BTreeSet iteration is sorted by (row, col): every list ends up sorted
    for &(r, c) in ones {
        by_col[c].push(r + 1);
        by_row[r].push(c + 1);
    }
    let max_col = by_col.iter().map(|l| l.len()).max().unwrap_or(0);
    let max_row = by_row.iter().map(|l| l.len()).max().unwrap_or(0);
    let mut text = String::new();
    text.push_str(&format!("{} {}\n", ncols, nrows));
    text.push_str(&format!("{} {}\n", max_col, max_row));
    let weights = |lists: &[Vec<usize>]| join(&lists.iter().map(|l| l.len()).collect::<Vec<_>>());
    text.push_str(&weights(&by_col));
    text.push('\n');
    text.push_str(&weights(&by_row));
    text.push('\n');
    for (lists, max) in [(&by_col, max_col), (&by_row, max_row)] {
        for list in lists.iter() {
            let mut list = list.clone();
            if padding {
                // MacKay's padding: every list is padded with zeros up to the
                // maximum weight, and a list is never left empty
                while list.len() < max.max(1) {
                    list.push(0);
                }
            }
            text.push_str(&join(&list));
            text.push('\n');
        }
    }
    text
}

// What the parser is documented to do with an arbitrary text. `Err(())` means
// that an error message is expected.
fn model_parse(text: &str) -> Result<(usize, usize, Ones), ()> {
    let mut lines = text.split('\n');
    let header = lines.next().ok_or(())?;
    let mut header = header.split_whitespace();
    let ncols: usize = header.next().ok_or(())?.parse().map_err(|_| ())?;
    let nrows: usize = header.next().ok_or(())?.parse().map_err(|_| ())?;
    lines.next();
    lines.next();
    lines.next();
    let mut ones = Ones::new();
    for col in 0..ncols {
        let line = lines.next().ok_or(())?;
        for token in line.split_whitespace() {
            let row: usize = token.parse().map_err(|_| ())?;
            if row != 0 {
                if row > nrows {
                    return Err(());
                }
                ones.insert((row - 1, col));
            }
        }
    }
    Ok((nrows, ncols, ones))
}

// Declared dimensions of a text, if its header can be read.
fn declared(text: &str) -> Option<(usize, usize)> {
    let mut header = text.split('\n').next()?.split_whitespace();
    let ncols = header.next()?.parse().ok()?;
    let nrows = header.next()?.parse().ok()?;
    Some((nrows, ncols))
}

// ------------------------------------------------------------------- checks

fn ones_of(h: &SparseMatrix) -> Ones {
    let all: Vec<(usize, usize)> = h.iter_all().collect();
    let set: Ones = all.iter().copied().collect();
    assert_eq!(all.len(), set.len(), "iter_all() repeats an entry");
    set
}

// The matrix `h` is exactly the matrix described by (nrows, ncols, ones), as
// seen through every read accessor.
fn assert_matrix_is(h: &SparseMatrix, nrows: usize, ncols: usize, ones: &Ones, what: &str) {
    assert_eq!(h.num_rows(), nrows, "{what}: number of rows");
    assert_eq!(h.num_cols(), ncols, "{what}: number of columns");
    assert_eq!(&ones_of(h), ones, "{what}: set of ones");
    for r in 0..nrows {
        let row: Vec<usize> = h.iter_row(r).copied().collect();
        let row_set: BTreeSet<usize> = row.iter().copied().collect();
        assert_eq!(row.len(), row_set.len(), "{what}: row {r} repeats");
        assert_eq!(h.row_weight(r), row.len(), "{what}: weight of row {r}");
        let expected: BTreeSet<usize> = ones.iter().filter(|e| e.0 == r).map(|e| e.1).collect();
        assert_eq!(row_set, expected, "{what}: row {r}");
    }
    for c in 0..ncols {
        let col: Vec<usize> = h.iter_col(c).copied().collect();
        let col_set: BTreeSet<usize> = col.iter().copied().collect();
        assert_eq!(col.len(), col_set.len(), "{what}: column {c} repeats");
        assert_eq!(h.col_weight(c), col.len(), "{what}: weight of column {c}");
        let expected: BTreeSet<usize> = ones.iter().filter(|e| e.1 == c).map(|e| e.0).collect();
        assert_eq!(col_set, expected, "{what}: column {c}");
    }
    if nrows * ncols <= 4096 {
        for r in 0..nrows {
            for c in 0..ncols {
                assert_eq!(
                    h.contains(r, c),
                    ones.contains(&(r, c)),
                    "{what}: contains({r}, {c})"
                );
            }
        }
    }
}

// The text has the structure that the alist format prescribes (checked
// directly on the text, independently of model_alist()).
fn assert_alist_structure(text: &str, nrows: usize, ncols: usize, ones: &Ones, padding: bool) {
    assert!(text.ends_with('\n'));
    let lines: Vec<&str> = text[..text.len() - 1].split('\n').collect();
    assert_eq!(lines.len(), 4 + ncols + nrows, "number of lines");
    let numbers = |line: &str| -> Vec<usize> {
        if line.is_empty() {
            return Vec::new();
        }
        // exactly one space between numbers, no leading or trailing blanks
        line.split(' ')
            .map(|t| {
                assert!(!t.is_empty() && t.bytes().all(|b| b.is_ascii_digit()), "token {t:?}");
                assert!(t == "0" || !t.starts_with('0'), "token {t:?}");
                t.parse().unwrap()
            })
            .collect()
    };
    assert_eq!(numbers(lines[0]), [ncols, nrows]);
    let col_weights: Vec<usize> = (0..ncols)
        .map(|c| ones.iter().filter(|e| e.1 == c).count())
        .collect();
    let row_weights: Vec<usize> = (0..nrows)
        .map(|r| ones.iter().filter(|e| e.0 == r).count())
        .collect();
    let max_col = col_weights.iter().copied().max().unwrap_or(0);
    let max_row = row_weights.iter().copied().max().unwrap_or(0);
    assert_eq!(numbers(lines[1]), [max_col, max_row]);
    assert_eq!(numbers(lines[2]), col_weights);
    assert_eq!(numbers(lines[3]), row_weights);
    let check_list = |line: &str, expected: Vec<usize>, max: usize| {
        let mut list = numbers(line);
        if padding {
            assert_eq!(list.len(), max.max(1), "padded length of {line:?}");
            while list.last() == Some(&0) {
                list.pop();
            }
        }
        assert!(list.windows(2).all(|w| w[0] < w[1]), "list not sorted: {line:?}");
        assert_eq!(list, expected, "list {line:?}");
    };
    for c in 0..ncols {
        let expected = ones.iter().filter(|e| e.1 == c).map(|e| e.0 + 1).collect();
        check_list(lines[4 + c], expected, max_col);
    }
    for r in 0..nrows {
        let expected = ones.iter().filter(|e| e.0 == r).map(|e| e.1 + 1).collect();
        check_list(lines[4 + ncols + r], expected, max_row);
    }
}

struct CountingWriter {
    text: String,
}

impl std::fmt::Write for CountingWriter {
    fn write_str(&mut self, s: &str) -> std::fmt::Result {
        self.text.push_str(s);
        Ok(())
    }
}

// Full round trip check of a matrix that is known to be (nrows, ncols, ones).
fn check_round_trip(h: &SparseMatrix, nrows: usize, ncols: usize, ones: &Ones, what: &str) {
    assert_matrix_is(h, nrows, ncols, ones, what);
    let mut parsed = Vec::new();
    for padding in [true, false] {
        let text = if padding {
            h.alist()
        } else {
            h.alist_no_padding()
        };
        assert_eq!(
            text,
            model_alist(nrows, ncols, ones, padding),
            "{what}: alist text (padding {padding})"
        );
        assert_alist_structure(&text, nrows, ncols, ones, padding);
        // the writer entry points agree with the String entry points
        let mut w = CountingWriter {
            text: String::new(),
        };
        if padding {
            h.write_alist(&mut w).unwrap();
        } else {
            h.write_alist_no_padding(&mut w).unwrap();
        }
        assert_eq!(w.text, text);
        let back = SparseMatrix::from_alist(&text)
            .unwrap_or_else(|e| panic!("{what}: own alist rejected: {e}"));
        assert_matrix_is(&back, nrows, ncols, ones, &format!("{what} (parsed back)"));
        // and writing again what was parsed gives the same texts
        assert_eq!(back.alist(), model_alist(nrows, ncols, ones, true));
        assert_eq!(back.alist_no_padding(), model_alist(nrows, ncols, ones, false));
        // variations that the parser has to accept: no final newline, CRLF
        let trimmed = SparseMatrix::from_alist(text.strip_suffix('\n').unwrap()).unwrap();
        assert_matrix_is(&trimmed, nrows, ncols, ones, "no final newline");
        let crlf = SparseMatrix::from_alist(&text.replace('\n', "\r\n")).unwrap();
        assert_matrix_is(&crlf, nrows, ncols, ones, "CRLF");
        parsed.push(back);
    }
    // padded and unpadded forms parse to the very same matrix
    assert_eq!(parsed[0], parsed[1], "{what}: padded vs unpadded");
    assert_eq!(parsed[0].clone(), parsed[1]);
    assert_eq!(format!("{:?}", parsed[0]), format!("{:?}", parsed[1]));
}

// Runs the parser on an arbitrary text and compares with the model. Returns
// whether the text was accepted.
fn check_parse(text: &str) -> bool {
    if let Some((nrows, ncols)) = declared(text) {
        if nrows > 2000 || ncols > 2000 {
            // only moderate declared dimensions are in scope
            return false;
        }
    }
    let result = catch_unwind(AssertUnwindSafe(|| SparseMatrix::from_alist(text)));
    let result = match result {
        Ok(r) => r,
        Err(_) => panic!("from_alist panicked on {text:?}"),
    };
    match (result, model_parse(text)) {
        (Ok(h), Ok((nrows, ncols, ones))) => {
            assert_matrix_is(&h, nrows, ncols, &ones, &format!("parse of {text:?}"));
            assert_eq!(h.alist(), model_alist(nrows, ncols, &ones, true));
            assert_eq!(h.alist_no_padding(), model_alist(nrows, ncols, &ones, false));
            true
        }
        (Err(message), Err(())) => {
            assert!(!message.trim().is_empty(), "empty error message for {text:?}");
            false
        }
        (Ok(_), Err(())) => panic!("text should have been rejected: {text:?}"),
        (Err(message), Ok(_)) => panic!("text should have been accepted: {text:?} ({message})"),
    }
}

// --------------------------------------------------------- matrix generation

// Builds a matrix through the public mutators, keeping the model in step.
fn random_matrix(g: &mut Gen, nrows: usize, ncols: usize, style: usize) -> (SparseMatrix, Ones) {
    let mut h = SparseMatrix::new(nrows, ncols);
    let mut ones = Ones::new();
    let cells = nrows * ncols;
    let target = match style % 6 {
        0 => 0,
        1 => 1.min(cells),
        2 => cells.div_ceil(10),
        3 => cells / 2,
        4 => cells,
        _ => g.below(cells + 1),
    };
    if target == cells {
        // full matrix, inserted in a scrambled order, with repeats
        let mut order: Vec<usize> = (0..cells).collect();
        for i in (1..order.len()).rev() {
            order.swap(i, g.below(i + 1));
        }
        for &k in &order {
            h.insert(k / ncols, k % ncols);
            ones.insert((k / ncols, k % ncols));
            if g.chance(1, 5) {
                h.insert(k / ncols, k % ncols);
            }
        }
    } else {
        let mut attempts = 0;
        while ones.len() < target && attempts < 20 * cells + 20 {
            attempts += 1;
            let (r, c) = (g.below(nrows), g.below(ncols));
            h.insert(r, c);
            ones.insert((r, c));
        }
    }
    // a few rounds of the other mutators
    let rounds = if style >= 6 { 12 } else { 0 };
    for _ in 0..rounds {
        let (r, c) = (g.below(nrows), g.below(ncols));
        match g.below(8) {
            0 => {
                h.remove(r, c);
                ones.remove(&(r, c));
            }
            1 => {
                h.toggle(r, c);
                if !ones.remove(&(r, c)) {
                    ones.insert((r, c));
                }
            }
            2 => {
                h.clear_row(r);
                ones.retain(|e| e.0 != r);
            }
            3 => {
                h.clear_col(c);
                ones.retain(|e| e.1 != c);
            }
            4 => {
                let cols: Vec<usize> = (0..g.below(ncols + 1)).map(|_| g.below(ncols)).collect();
                h.set_row(r, cols.iter());
                ones.retain(|e| e.0 != r);
                ones.extend(cols.iter().map(|&c| (r, c)));
            }
            5 => {
                let rows: Vec<usize> = (0..g.below(nrows + 1)).map(|_| g.below(nrows)).collect();
                h.set_col(c, rows.iter().copied());
                ones.retain(|e| e.1 != c);
                ones.extend(rows.iter().map(|&r| (r, c)));
            }
            6 => {
                let cols: Vec<usize> = (0..g.below(4)).map(|_| g.below(ncols)).collect();
                h.insert_row(r, cols.iter());
                ones.extend(cols.iter().map(|&c| (r, c)));
            }
            _ => {
                let rows: Vec<usize> = (0..g.below(4)).map(|_| g.below(nrows)).collect();
                h.insert_col(c, rows.iter());
                ones.extend(rows.iter().map(|&r| (r, c)));
            }
        }
    }
    (h, ones)
}

const SHAPES: &[(usize, usize)] = &[
    (1, 1),
    (1, 2),
    (2, 1),
    (1, 9),
    (9, 1),
    (2, 2),
    (3, 5),
    (5, 3),
    (4, 12),
    (7, 7),
    (12, 30),
    (30, 12),
    (1, 70),
    (70, 1),
    (25, 40),
];

// -------------------------------------------------------------------- tests

#[test]
fn matrices_round_trip_through_alist() {
    let mut g = Gen(0xC08_0001);
    for &(nrows, ncols) in SHAPES {
        for style in 0..12 {
            let (h, ones) = random_matrix(&mut g, nrows, ncols, style);
            check_round_trip(&h, nrows, ncols, &ones, &format!("{nrows}x{ncols} style {style}"));
        }
    }
}

#[test]
fn special_matrices_round_trip() {
    // all-zero matrices
    for &(nrows, ncols) in SHAPES {
        let h = SparseMatrix::new(nrows, ncols);
        check_round_trip(&h, nrows, ncols, &Ones::new(), "zero matrix");
    }
    assert_eq!(SparseMatrix::new(1, 1).alist(), "1 1\n0 0\n0\n0\n0\n0\n");
    assert_eq!(SparseMatrix::new(1, 1).alist_no_padding(), "1 1\n0 0\n0\n0\n\n\n");
    assert_eq!(SparseMatrix::new(2, 3).alist(), "3 2\n0 0\n0 0 0\n0 0\n0\n0\n0\n0\n0\n");
    // a matrix that became zero again
    let mut h = SparseMatrix::new(3, 4);
    h.insert(2, 3);
    h.insert(0, 0);
    h.remove(2, 3);
    h.toggle(0, 0);
    check_round_trip(&h, 3, 4, &Ones::new(), "emptied matrix");
    // empty rows and columns next to heavy ones, inserted in descending order
    let mut h = SparseMatrix::new(5, 6);
    let mut ones = Ones::new();
    for c in (0..6).rev() {
        if c != 2 {
            h.insert(3, c);
            ones.insert((3, c));
        }
    }
    for r in (0..5).rev() {
        if r != 1 {
            h.insert(r, 4);
            ones.insert((r, 4));
        }
    }
    check_round_trip(&h, 5, 6, &ones, "cross");
    assert_eq!(
        h.alist(),
        "6 5\n4 5\n1 1 0 1 4 1\n1 0 1 5 1\n4 0 0 0\n4 0 0 0\n0 0 0 0\n4 0 0 0\n1 3 4 5\n4 0 0 0\n\
         5 0 0 0 0\n0 0 0 0 0\n5 0 0 0 0\n1 2 4 5 6\n5 0 0 0 0\n"
    );
    assert_eq!(
        h.alist_no_padding(),
        "6 5\n4 5\n1 1 0 1 4 1\n1 0 1 5 1\n4\n4\n\n4\n1 3 4 5\n4\n5\n\n5\n1 2 4 5 6\n5\n"
    );
    // identity and anti-identity
    for n in [1, 2, 17] {
        let mut id = SparseMatrix::new(n, n);
        let mut anti = SparseMatrix::new(n, n);
        for j in (0..n).rev() {
            id.insert(j, j);
            anti.insert(j, n - 1 - j);
        }
        check_round_trip(&id, n, n, &(0..n).map(|j| (j, j)).collect(), "identity");
        check_round_trip(&anti, n, n, &(0..n).map(|j| (j, n - 1 - j)).collect(), "anti");
    }
    // a larger sparse matrix, built column by column
    let (nrows, ncols) = (150, 400);
    let mut g = Gen(0xC08_0002);
    let mut h = SparseMatrix::new(nrows, ncols);
    let mut ones = Ones::new();
    for c in 0..ncols {
        let rows: Vec<usize> = (0..g.below(5)).map(|_| g.below(nrows)).collect();
        h.insert_col(c, rows.iter());
        ones.extend(rows.iter().map(|&r| (r, c)));
    }
    check_round_trip(&h, nrows, ncols, &ones, "150x400");
}

#[test]
fn hand_written_alists() {
    // padded and unpadded irregular forms, with and without final newline
    let padded = "3 2\n2 2\n2 1 0\n2 1\n1 2\n1 0\n0 0\n1 2\n1 0\n";
    let unpadded = "3 2\n2 2\n2 1 0\n2 1\n1 2\n1\n\n1 2\n1\n";
    let expected: Ones = [(0, 0), (1, 0), (0, 1)].into_iter().collect();
    for text in [padded, unpadded] {
        assert!(check_parse(text));
        let h = SparseMatrix::from_alist(text).unwrap();
        assert_matrix_is(&h, 2, 3, &expected, "hand written");
        assert_eq!(h.alist(), padded);
        assert_eq!(h.alist_no_padding(), unpadded);
    }
    let accepted: &[&str] = &[
        // the row lists and even the weight lines are not needed
        "3 2\n2 2\n2 1 0\n2 1\n1 2\n1\n\n",
        "3 2\n2 2\n2 1 0\n2 1\n1 2\n1\n",
        "3 2\n\n\n\n1 2\n1\n\n",
        "3 2\nthese three\nlines are\nnot read\n1 2\n1\n\n",
        // extra header tokens are ignored
        "3 2 99 x\n2 2\n2 1 0\n2 1\n1 2\n1\n\n",
        // padding zeros anywhere, repeated entries, unsorted entries
        "3 2\n2 2\n2 1 0\n2 1\n0 2 0 1 0\n1 1 1 0 1\n0 0 0 0 0 0 0\n",
        "3 2\n2 2\n2 1 0\n2 1\n2 1 2 1\n+1\n00\n",
        // leading zeros and plus signs
        "+3 002\n2 2\n2 1 0\n2 1\n01 +2\n001\n+0\n",
        // all sorts of blanks
        "\t3 \u{3000} 2\r\n2 2\r\n2 1 0\r\n2 1\r\n 1\u{a0}2 \r\n\u{2003}1\u{b}\u{c}\r\n\r\n",
        " 3\t2 \n\n\n\n1\u{2028}2\n\u{85}1\u{1680}\n\u{2029}\n",
        // zero columns: nothing else is needed
        "0 5",
        "0 5\n",
        "0 0",
        "+0 0\n1 2 3",
        // one column
        "1 1\n1 1\n1\n1\n1",
        "1 1\n1 1\n1\n1\n1\n1\n",
        "1 1\n0 0\n0\n0\n0\n0\n",
        "1 1\n0 0\n0\n0\n\n\n",
        "1 1\n0 0\n0\n0\n",
        "1 3\n\n\n\n3 3 3 2 2 1 0",
    ];
    for text in accepted {
        assert!(check_parse(text), "should be accepted: {text:?}");
    }
    let rejected: &[&str] = &[
        "",
        "\n",
        " ",
        "\n3 2\n2 2\n2 1 0\n2 1\n1 2\n1\n\n",
        "3",
        "3\n2",
        "x 2",
        "3 y",
        "3 -2",
        "-3 2",
        "-0 0",
        "0 -0",
        "3.0 2",
        "3 2.0",
        "3 0x2",
        "1e1 2",
        "3,2",
        "\u{ff13} 2",
        "3 \u{0663}",
        "+ 2",
        "3 +",
        "++3 2",
        "+-3 2",
        "3+ 2",
        "18446744073709551616 2",
        "3 18446744073709551616",
        "3 99999999999999999999999999999999999999999",
        "3\u{200b}2",
        // not enough lines
        "3 2",
        "3 2\n",
        "3 2\n2 2\n2 1 0\n2 1",
        "3 2\n2 2\n2 1 0\n2 1\n",
        "3 2\n2 2\n2 1 0\n2 1\n1 2",
        "3 2\n2 2\n2 1 0\n2 1\n1 2\n",
        "3 2\n2 2\n2 1 0\n2 1\n1 2\n1",
        "1 1",
        "1 1\n\n\n",
        // lines are separated by \n only
        "3 2\r2 2\r2 1 0\r2 1\r1 2\r1\r\r",
        "3 2\u{2028}2 2\u{2028}2 1 0\u{2028}2 1\u{2028}1 2\u{2028}1\u{2028}\u{2028}",
        // bad entries
        "3 2\n2 2\n2 1 0\n2 1\n1 3\n1\n\n",
        "3 2\n2 2\n2 1 0\n2 1\n1 2\n1\n3\n",
        "3 2\n2 2\n2 1 0\n2 1\n1 2\n1\n18446744073709551615\n",
        "3 2\n2 2\n2 1 0\n2 1\n1 2\n1\n18446744073709551616\n",
        "3 2\n2 2\n2 1 0\n2 1\n1 2\n1\n-1\n",
        "3 2\n2 2\n2 1 0\n2 1\n1 2\n1\n-0\n",
        "3 2\n2 2\n2 1 0\n2 1\n1 2\n1\n1.\n",
        "3 2\n2 2\n2 1 0\n2 1\n1 2\n1\n1,2\n",
        "3 2\n2 2\n2 1 0\n2 1\n1 2\n1\nx\n",
        "3 2\n2 2\n2 1 0\n2 1\n1 2\n1\n\u{0661}\n",
        "3 2\n2 2\n2 1 0\n2 1\n1 2\n1\n1 + 2\n",
        "3 2\n2 2\n2 1 0\n2 1\n1 2\n1\n0 0 0 1 2 0 0 3\n",
        "1 1\n1 1\n1\n1\n2\n1\n",
        "3 0\n0 0\n0 0 0\n\n\n\n1\n",
        "2 0\n\n\n\n\n0 0 0 +1\n",
    ];
    for text in rejected {
        assert!(!check_parse(text), "should be rejected: {text:?}");
    }
    // zero rows: every entry but the padding zero is out of range
    assert!(check_parse("3 0\n0 0\n0 0 0\n\n\n\n0\n"));
    assert!(check_parse("3 0\n0 0\n0 0 0\n\n0\n0\n0\n"));
}

#[test]
fn every_prefix_and_every_deletion_of_valid_alists() {
    let mut g = Gen(0xC08_0003);
    for &(nrows, ncols) in &[(1, 1), (2, 3), (3, 2), (4, 6), (6, 4)] {
        for style in [0, 2, 3, 4, 9] {
            let (h, _) = random_matrix(&mut g, nrows, ncols, style);
            for text in [h.alist(), h.alist_no_padding()] {
                let mut accepted = 0;
                for end in 0..=text.len() {
                    // truncated file
                    if check_parse(&text[..end]) {
                        accepted += 1;
                    }
                    // file that starts in the middle
                    check_parse(&text[end..]);
                }
                assert!(accepted >= 1);
                for at in 0..text.len() {
                    // one byte deleted, one byte replaced, one byte inserted
                    let mut deleted = text.clone();
                    deleted.remove(at);
                    check_parse(&deleted);
                    for replacement in ["0", "9", " ", "\n", "-", "+", "x", "\u{a0}", "\r"] {
                        let mut replaced = text.clone();
                        replaced.replace_range(at..at + 1, replacement);
                        check_parse(&replaced);
                        let mut inserted = text.clone();
                        inserted.insert_str(at, replacement);
                        check_parse(&inserted);
                    }
                }
            }
        }
    }
}

#[test]
fn token_soups_never_panic() {
    let mut g = Gen(0xC08_0004);
    let tokens: &[&str] = &[
        "0", "1", "2", "3", "4", "5", "7", "12", "00", "+1", "+0", "-1", "-0", "+", "-", "1.5",
        "x", "1x", "0x1", "1e3", "\u{ff11}", "\u{0662}", "18446744073709551615",
        "18446744073709551616", "340282366920938463463374607431768211456", "", "é", "\u{200b}",
        "1_0", "١",
    ];
    let separators: &[&str] = &[
        " ", " ", " ", "\n", "\n", "\n", "\t", "\r\n", "\r", "  ", "\n\n", "\u{a0}", "\u{3000}",
        "\u{b}", "\u{c}", "\u{2028}", "\u{85}", " \n", "\n ",
    ];
    let mut accepted = 0;
    for round in 0..6000 {
        let mut text = String::new();
        // many soups start with a plausible header so that the column lines
        // are reached
        if round % 3 != 0 {
            let ncols = g.below(6);
            let nrows = g.below(6);
            text.push_str(&format!("{ncols} {nrows}"));
            text.push_str(g.pick(&["\n", "\n", "\n", " ", "\r\n", ""]));
        }
        let n = g.below(40);
        for _ in 0..n {
            // favour small numbers, so that a good share of the soups parse
            if g.chance(3, 4) {
                text.push_str(g.pick(&tokens[..6]));
            } else {
                text.push_str(g.pick(tokens));
            }
            text.push_str(g.pick(separators));
        }
        if check_parse(&text) {
            accepted += 1;
        }
    }
    // the soups exercise both outcomes
    assert!(accepted > 100, "accepted only {accepted}");
    assert!(accepted < 5900, "accepted {accepted}");
}

#[test]
fn mutated_alists_agree_with_the_model() {
    let mut g = Gen(0xC08_0005);
    let mut accepted = 0;
    let mut total = 0;
    for &(nrows, ncols) in &[(1, 1), (3, 5), (5, 3), (4, 12), (12, 30), (9, 1), (1, 9)] {
        for style in 0..8 {
            let (h, _) = random_matrix(&mut g, nrows, ncols, style);
            for text in [h.alist(), h.alist_no_padding()] {
                for _ in 0..60 {
                    let mut lines: Vec<Vec<String>> = text
                        .split('\n')
                        .map(|l| l.split(' ').filter(|t| !t.is_empty()).map(String::from).collect())
                        .collect();
                    for _ in 0..1 + g.below(3) {
                        let li = g.below(lines.len());
                        match g.below(11) {
                            0 => {
                                // out of range index, or just in range
                                let v = nrows + g.below(3);
                                lines[li].push(v.to_string());
                            }
                            1 => {
                                lines.remove(li);
                            }
                            2 => {
                                let copy = lines[li].clone();
                                lines.insert(li, copy);
                            }
                            3 => lines[li].clear(),
                            4 => lines[li].reverse(),
                            5 => {
                                if !lines[li].is_empty() {
                                    let ti = g.below(lines[li].len());
                                    lines[li][ti] = g
                                        .pick(&["0", "1", "-1", "+1", "x", "99999999999999999999", "2", "01"])
                                        .to_string();
                                }
                            }
                            6 => {
                                if !lines[li].is_empty() {
                                    let ti = g.below(lines[li].len());
                                    let copy = lines[li][ti].clone();
                                    lines[li].push(copy);
                                }
                            }
                            7 => lines.truncate(li),
                            8 => {
                                let other = g.below(lines.len());
                                lines.swap(li, other);
                            }
                            9 => {
                                lines[li].insert(0, "0".to_string());
                            }
                            _ => {
                                // change the declared sizes a little
                                if lines[0].len() == 2 {
                                    let which = g.below(2);
                                    if let Ok(v) = lines[0][which].parse::<usize>() {
                                        let v = (v % 100 + g.below(3)).saturating_sub(1);
                                        lines[0][which] = v.to_string();
                                    }
                                }
                            }
                        }
                        if lines.is_empty() {
                            lines.push(Vec::new());
                        }
                    }
                    let separator = g.pick(&[" ", " ", "  ", "\t", " \r"]);
                    let mutated = lines
                        .iter()
                        .map(|l| l.join(separator))
                        .collect::<Vec<_>>()
                        .join("\n");
                    total += 1;
                    if check_parse(&mutated) {
                        accepted += 1;
                    }
                }
            }
        }
    }
    assert!(accepted > total / 20, "{accepted} of {total}");
    assert!(accepted < total - total / 20, "{accepted} of {total}");
}

// Number syntax, line splitting and error reporting, hammered through the
// parser. The model uses the standard library (`str::parse::<usize>`,
// `str::split('\n')`, `str::split_whitespace`).
#[test]
fn number_syntax_and_line_splitting_agree_with_std() {
    let mut g = Gen(0xC08_0201);
    // numbers as entries of the only column of a 999 x 1 matrix
    let entry = |token: &str| format!("1 999\n\n\n\n{token}");
    let fixed: &[&str] = &[
        "0", "1", "999", "1000", "+999", "+1000", "0999", "01000", "+0", "+00", "-0", "+", "-",
        "++1", "+-1", "-+1", "1+", "1-", "+1+", "9 9", "9\t+9", "999999999", "9999999999",
        "0000000000000000000000000000000000000000000000000000000000000000000012",
        "+000000000000000000000000000000000000000000000000000000000000000000999",
        "0000000000000000000000000000000000000000000000000000000000000000001000",
        "00000000000000000000000000000000000000000000000000000000000000000000000000000000",
        "18446744073709551614", "18446744073709551615", "18446744073709551616",
        "18446744073709551625", "28446744073709551615", "99999999999999999999",
        "100000000000000000000", "340282366920938463463374607431768211455",
        "340282366920938463463374607431768211456", "99999999999999999999999999999999999999",
        "100000000000000000000000000000000000000", "999999999999999999999999999999999999999",
        "4294967295", "4294967296", "4294967297", "１", "1１", "٣", "1.0", "1e2", "0x10", "1_000",
        "1,000", "12a", "a12", "1 2 3 x", "\u{feff}1", "1\u{feff}", "\u{200b}", "५",
    ];
    for token in fixed {
        check_parse(&entry(token));
        // the same token as a size
        check_parse(&format!("{token} 1\n\n\n\n"));
        check_parse(&format!("0 {token}"));
        check_parse(&format!("0\u{a0}{token}\u{2003}"));
    }
    let alphabet: Vec<char> = "0000111223456789++-- x\u{a0}٣".chars().collect();
    for _ in 0..4000 {
        let len = 1 + g.below(7);
        let token: String = (0..len).map(|_| alphabet[g.below(alphabet.len())]).collect();
        check_parse(&entry(&token));
        check_parse(&format!("0 {token}"));
    }
    for _ in 0..500 {
        // long runs of digits, with and without leading zeros
        let zeros = g.below(3) * g.below(30);
        let digits = g.below(45);
        let mut token = String::new();
        if g.chance(1, 4) {
            token.push('+');
        }
        token.extend(std::iter::repeat('0').take(zeros));
        token.extend((0..digits).map(|_| char::from(b'0' + g.below(10) as u8)));
        check_parse(&entry(&token));
        check_parse(&format!("0 {token}x"));
    }
    // accepted values are the values that were written
    for value in (0..=999).chain([1000, 1001, 5000]) {
        for token in [format!("{value}"), format!("+{value}"), format!("000{value}")] {
            let accepted = check_parse(&entry(&token));
            assert_eq!(accepted, value <= 999);
            if accepted {
                let h = SparseMatrix::from_alist(&entry(&token)).unwrap();
                assert_eq!((h.num_rows(), h.num_cols()), (999, 1));
                let expected: Vec<usize> = if value == 0 { vec![] } else { vec![value - 1] };
                assert_eq!(h.iter_col(0).copied().collect::<Vec<_>>(), expected);
            }
        }
    }
    // line structure: only '\n' ends a line, and what follows the last '\n' is
    // a line too
    let pieces: &[&str] = &[
        "1", "2", "0", " ", "\n", "\n", "\n", "\r", "\r\n", "\u{2028}", "\u{85}", "\u{b}", "\u{c}",
        "é", "\u{a0}", "\u{3000}", "3",
    ];
    for round in 0..3000 {
        let mut text = String::from(g.pick(&["2 3", "3 2", "1 1", "0 4", "2 2\n\n\n", "4 3\n1\n2\n3\n"]));
        let n = g.below(30);
        for _ in 0..n {
            text.push_str(g.pick(pieces));
        }
        check_parse(&text);
        if round % 50 == 0 {
            // cut at every character boundary
            for (at, _) in text.char_indices() {
                check_parse(&text[..at]);
                check_parse(&text[at..]);
            }
        }
    }
    // errors about very long or odd tokens are still plain error messages
    for token in [
        "é".repeat(200),
        "9".repeat(5000),
        "0".repeat(5000) + "x",
        "\u{1f600}".repeat(30),
        "x".repeat(23) + "é",
        "x".repeat(24) + "é",
        "\"\\\u{7}\u{1b}[31m".to_string(),
    ] {
        for text in [entry(&token), format!("{token} 1"), format!("1 {token}")] {
            assert!(!check_parse(&text));
            let message = SparseMatrix::from_alist(&text).unwrap_err();
            assert!(!message.is_empty());
        }
    }
    // many lines missing, few lines missing
    for ncols in 0..40 {
        let h = SparseMatrix::new(3, ncols);
        let text = h.alist();
        let lines: Vec<&str> = text.split('\n').collect();
        for keep in 0..=lines.len() {
            let cut = lines[..keep].join("\n");
            let accepted = check_parse(&cut);
            // the header, the three skipped lines and one line per column
            assert_eq!(accepted, keep >= 4 + ncols || (ncols == 0 && keep >= 1));
        }
    }
}
