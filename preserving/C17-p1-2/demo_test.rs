use ldpc_toolbox::sparse::SparseMatrix;
use std::collections::BTreeSet;
use std::panic::{AssertUnwindSafe, catch_unwind};

/// Small deterministic generator (no external crates needed).
struct Lcg(u64);

impl Lcg {
    fn next(&mut self) -> u64 {
        self.0 = self
            .0
            .wrapping_mul(6364136223846793005)
            .wrapping_add(1442695040888963407);
        self.0 >> 33
    }

    fn below(&mut self, n: usize) -> usize {
        (self.next() % (n as u64)) as usize
    }
}

/// Reference model: the set of positions, plus the ordered row and column
/// lists that the documented semantics ("insert appends, remove deletes,
/// set = clear + insert each") produce.
#[derive(Clone, Debug, PartialEq, Eq)]
struct Model {
    nrows: usize,
    ncols: usize,
    set: BTreeSet<(usize, usize)>,
    rows: Vec<Vec<usize>>,
    cols: Vec<Vec<usize>>,
}

impl Model {
    fn new(nrows: usize, ncols: usize) -> Model {
        Model {
            nrows,
            ncols,
            set: BTreeSet::new(),
            rows: vec![Vec::new(); nrows],
            cols: vec![Vec::new(); ncols],
        }
    }

    fn insert(&mut self, r: usize, c: usize) {
        if self.set.insert((r, c)) {
            self.rows[r].push(c);
            self.cols[c].push(r);
        }
    }

    fn remove(&mut self, r: usize, c: usize) {
        if self.set.remove(&(r, c)) {
            self.rows[r].retain(|&x| x != c);
            self.cols[c].retain(|&x| x != r);
        }
    }

    fn toggle(&mut self, r: usize, c: usize) {
        if self.set.contains(&(r, c)) {
            self.remove(r, c)
        } else {
            self.insert(r, c)
        }
    }

    fn clear_row(&mut self, r: usize) {
        for c in self.rows[r].clone() {
            self.remove(r, c);
        }
    }

    fn clear_col(&mut self, c: usize) {
        for r in self.cols[c].clone() {
            self.remove(r, c);
        }
    }
}

fn check(h: &SparseMatrix, m: &Model, context: &str) {
    assert_eq!(h.num_rows(), m.nrows, "num_rows {context}");
    assert_eq!(h.num_cols(), m.ncols, "num_cols {context}");
    for r in 0..m.nrows {
        assert_eq!(h.row_weight(r), m.rows[r].len(), "row_weight {r} {context}");
        let it: Vec<usize> = h.iter_row(r).copied().collect();
        assert_eq!(it, m.rows[r], "iter_row {r} {context}");
        let as_set: BTreeSet<usize> = it.iter().copied().collect();
        assert_eq!(as_set.len(), it.len(), "duplicates in row {r} {context}");
    }
    for c in 0..m.ncols {
        assert_eq!(h.col_weight(c), m.cols[c].len(), "col_weight {c} {context}");
        let it: Vec<usize> = h.iter_col(c).copied().collect();
        assert_eq!(it, m.cols[c], "iter_col {c} {context}");
        let as_set: BTreeSet<usize> = it.iter().copied().collect();
        assert_eq!(as_set.len(), it.len(), "duplicates in col {c} {context}");
    }
    for r in 0..m.nrows {
        for c in 0..m.ncols {
            assert_eq!(
                h.contains(r, c),
                m.set.contains(&(r, c)),
                "contains({r}, {c}) {context}"
            );
        }
    }
    let all: Vec<(usize, usize)> = h.iter_all().collect();
    let expected_all: Vec<(usize, usize)> = m
        .rows
        .iter()
        .enumerate()
        .flat_map(|(r, l)| l.iter().map(move |&c| (r, c)))
        .collect();
    assert_eq!(all, expected_all, "iter_all {context}");
    let all_set: BTreeSet<(usize, usize)> = all.iter().copied().collect();
    assert_eq!(all_set.len(), all.len(), "iter_all duplicates {context}");
    assert_eq!(all_set, m.set, "iter_all as a set {context}");
    // row and column views mutually consistent
    let from_cols: BTreeSet<(usize, usize)> = (0..m.ncols)
        .flat_map(|c| h.iter_col(c).map(move |&r| (r, c)))
        .collect();
    assert_eq!(from_cols, m.set, "column view {context}");
}

/// Builds, through single inserts only, the matrix that has the ordered lists
/// of the model (used to check the derived equality, which is order sensitive).
fn rebuild_equal(h: &SparseMatrix, context: &str) {
    // alist round trip gives the same set of entries
    let h2 = SparseMatrix::from_alist(&h.alist()).unwrap();
    let a: BTreeSet<(usize, usize)> = h.iter_all().collect();
    let b: BTreeSet<(usize, usize)> = h2.iter_all().collect();
    assert_eq!(a, b, "alist round trip {context}");
    assert_eq!(h.alist(), h2.alist(), "alist text {context}");
    assert_eq!(
        h.alist_no_padding(),
        h2.alist_no_padding(),
        "alist_no_padding text {context}"
    );
}

const SHAPES: &[(usize, usize)] = &[
    (0, 0),
    (0, 5),
    (5, 0),
    (1, 1),
    (1, 7),
    (7, 1),
    (2, 2),
    (3, 5),
    (6, 4),
    (8, 13),
    (16, 16),
];

/// Applies a random history of all the editing operations, comparing with the
/// model after every step.
fn random_history(nrows: usize, ncols: usize, seed: u64, steps: usize, weights: &[usize; 10]) {
    let mut rng = Lcg(seed ^ ((nrows as u64) << 20) ^ ((ncols as u64) << 8));
    let mut h = SparseMatrix::new(nrows, ncols);
    let mut m = Model::new(nrows, ncols);
    check(&h, &m, "initially");
    let total: usize = weights.iter().sum();
    for step in 0..steps {
        let mut pick = rng.below(total);
        let mut op = 0;
        while pick >= weights[op] {
            pick -= weights[op];
            op += 1;
        }
        let context = format!("shape {nrows}x{ncols} seed {seed} step {step} op {op}");
        let empty = nrows == 0 || ncols == 0;
        match op {
            0 if !empty => {
                let (r, c) = (rng.below(nrows), rng.below(ncols));
                let before = h.clone();
                let was = h.contains(r, c);
                h.insert(r, c);
                m.insert(r, c);
                if was {
                    assert_eq!(h, before, "insert of present entry {context}");
                }
            }
            1 if !empty => {
                let (r, c) = (rng.below(nrows), rng.below(ncols));
                let before = h.clone();
                let was = h.contains(r, c);
                h.remove(r, c);
                m.remove(r, c);
                if !was {
                    assert_eq!(h, before, "remove of absent entry {context}");
                }
            }
            2 if !empty => {
                let (r, c) = (rng.below(nrows), rng.below(ncols));
                h.toggle(r, c);
                m.toggle(r, c);
            }
            3 if nrows > 0 => {
                let r = rng.below(nrows);
                h.clear_row(r);
                m.clear_row(r);
            }
            4 if ncols > 0 => {
                let c = rng.below(ncols);
                h.clear_col(c);
                m.clear_col(c);
            }
            5 if nrows > 0 => {
                // set_row, possibly with repeated elements and possibly empty
                let r = rng.below(nrows);
                let n = if ncols == 0 { 0 } else { rng.below(ncols + 3) };
                let list: Vec<usize> = (0..n).map(|_| rng.below(ncols)).collect();
                if step % 2 == 0 {
                    h.set_row(r, list.iter());
                } else {
                    h.set_row(r, list.clone().into_iter());
                }
                m.clear_row(r);
                for &c in &list {
                    m.insert(r, c);
                }
            }
            6 if ncols > 0 => {
                let c = rng.below(ncols);
                let n = if nrows == 0 { 0 } else { rng.below(nrows + 3) };
                let list: Vec<usize> = (0..n).map(|_| rng.below(nrows)).collect();
                if step % 2 == 0 {
                    h.set_col(c, list.iter());
                } else {
                    h.set_col(c, list.clone().into_iter());
                }
                m.clear_col(c);
                for &r in &list {
                    m.insert(r, c);
                }
            }
            7 if nrows > 0 => {
                let r = rng.below(nrows);
                let n = if ncols == 0 { 0 } else { rng.below(ncols + 3) };
                let list: Vec<usize> = (0..n).map(|_| rng.below(ncols)).collect();
                if step % 2 == 0 {
                    h.insert_row(r, list.iter());
                } else {
                    h.insert_row(r, list.clone().into_iter());
                }
                for &c in &list {
                    m.insert(r, c);
                }
            }
            8 if ncols > 0 => {
                let c = rng.below(ncols);
                let n = if nrows == 0 { 0 } else { rng.below(nrows + 3) };
                let list: Vec<usize> = (0..n).map(|_| rng.below(nrows)).collect();
                if step % 2 == 0 {
                    h.insert_col(c, list.iter());
                } else {
                    h.insert_col(c, list.clone().into_iter());
                }
                for &r in &list {
                    m.insert(r, c);
                }
            }
            9 => {
                // a clone is an independent, equal matrix
                let h2 = h.clone();
                assert_eq!(h2, h, "clone {context}");
                rebuild_equal(&h, &context);
            }
            _ => {}
        }
        check(&h, &m, &context);
    }
}

#[test]
fn random_histories_uniform_mix() {
    for &(nrows, ncols) in SHAPES {
        for seed in 0..6 {
            random_history(nrows, ncols, seed, 150, &[4, 3, 3, 1, 1, 1, 1, 1, 1, 1]);
        }
    }
}

#[test]
fn random_histories_dense_fill() {
    // mostly inserts and bulk inserts: the matrix becomes (almost) full
    for &(nrows, ncols) in SHAPES {
        for seed in 100..103 {
            random_history(nrows, ncols, seed, 200, &[8, 1, 1, 0, 0, 1, 1, 3, 3, 1]);
        }
    }
}

/// Returns true if the closure panics.
fn panics<F: FnOnce()>(f: F) -> bool {
    catch_unwind(AssertUnwindSafe(f)).is_err()
}

#[test]
fn out_of_range_indices() {
    // The behaviour with indices outside the matrix: what panics and what does
    // not, and the matrix is left as the set semantics say.
    let mut h = SparseMatrix::new(3, 4);
    let mut m = Model::new(3, 4);
    for &(r, c) in &[(0, 0), (0, 3), (1, 1), (2, 3), (2, 0)] {
        h.insert(r, c);
        m.insert(r, c);
    }
    // a row outside the matrix is simply not in any column
    assert!(!h.contains(3, 0));
    assert!(!h.contains(usize::MAX, 3));
    assert!(panics(|| {
        h.contains(0, 4);
    }));
    assert!(panics(|| h.insert(3, 0)));
    check(&h, &m, "after insert(3, 0)");
    assert!(panics(|| h.insert(0, 4)));
    check(&h, &m, "after insert(0, 4)");
    assert!(panics(|| h.remove(3, 0)));
    check(&h, &m, "after remove(3, 0)");
    assert!(panics(|| h.remove(0, 4)));
    check(&h, &m, "after remove(0, 4)");
    assert!(panics(|| h.toggle(3, 0)));
    check(&h, &m, "after toggle(3, 0)");
    assert!(panics(|| h.toggle(0, 4)));
    check(&h, &m, "after toggle(0, 4)");
    assert!(panics(|| h.clear_row(3)));
    assert!(panics(|| h.clear_col(4)));
    check(&h, &m, "after clear out of range");
    let empty: [usize; 0] = [];
    assert!(panics(|| h.set_row(3, empty.iter())));
    assert!(panics(|| h.set_col(4, empty.iter())));
    check(&h, &m, "after empty set out of range");
    // bulk insertion of nothing touches nothing
    assert!(!panics(|| h.insert_row(3, empty.iter())));
    assert!(!panics(|| h.insert_col(4, empty.iter())));
    assert!(!panics(|| h.insert_row(usize::MAX, empty.iter())));
    check(&h, &m, "after empty bulk insert out of range");
    assert!(panics(|| h.insert_row(3, [0usize].iter())));
    assert!(panics(|| h.insert_col(4, [0usize].iter())));
    check(&h, &m, "after bulk insert out of range");
    // elements before the offending one have been inserted, later ones not
    assert!(panics(|| h.insert_row(1, [2usize, 1, 4, 0].iter())));
    m.insert(1, 2);
    check(&h, &m, "after partial insert_row");
    assert!(panics(|| h.insert_col(1, [0usize, 1, 3, 2].iter())));
    m.insert(0, 1);
    check(&h, &m, "after partial insert_col");
    assert!(panics(|| h.set_row(2, [1usize, 1, 9, 2].iter())));
    m.clear_row(2);
    m.insert(2, 1);
    check(&h, &m, "after partial set_row");
    assert!(panics(|| h.set_col(3, [1usize, 7, 2].iter())));
    m.clear_col(3);
    m.insert(1, 3);
    check(&h, &m, "after partial set_col");
    assert_eq!(h.num_rows(), 3);
    assert_eq!(h.num_cols(), 4);
}

#[test]
fn idempotence_and_equality() {
    // inserting a present entry / removing an absent one gives an equal matrix,
    // for every position of a small matrix in several states
    let (nrows, ncols) = (4, 5);
    let mut rng = Lcg(77);
    for round in 0..20 {
        let mut h = SparseMatrix::new(nrows, ncols);
        for _ in 0..(round * 2) {
            h.toggle(rng.below(nrows), rng.below(ncols));
        }
        for r in 0..nrows {
            for c in 0..ncols {
                let before = h.clone();
                if h.contains(r, c) {
                    h.insert(r, c);
                    assert_eq!(h, before);
                    h.insert_row(r, [c, c].iter());
                    assert_eq!(h, before);
                    h.insert_col(c, [r].iter());
                    assert_eq!(h, before);
                    // toggling twice gives the same set (entry goes to the end)
                    h.toggle(r, c);
                    assert!(!h.contains(r, c));
                    h.toggle(r, c);
                    assert!(h.contains(r, c));
                    let a: BTreeSet<_> = h.iter_all().collect();
                    let b: BTreeSet<_> = before.iter_all().collect();
                    assert_eq!(a, b);
                    h = before;
                } else {
                    h.remove(r, c);
                    assert_eq!(h, before);
                    h.toggle(r, c);
                    h.toggle(r, c);
                    assert_eq!(h, before);
                    h.insert(r, c);
                    h.remove(r, c);
                    assert_eq!(h, before);
                }
            }
        }
    }
}

#[test]
fn random_histories_insert_heavy() {
    // the rewritten mechanism: membership test, single and bulk insertion
    for &(nrows, ncols) in SHAPES {
        for seed in 300..306 {
            random_history(nrows, ncols, seed, 250, &[8, 2, 1, 1, 1, 0, 0, 5, 5, 1]);
        }
    }
}

#[test]
fn membership_with_unbalanced_row_and_column_weights() {
    // rows much heavier than columns, columns much heavier than rows, equal
    // weights, empty rows and columns: membership is the same whichever list
    // is the shorter one
    for &(nrows, ncols) in &[(2, 40), (40, 2), (1, 30), (30, 1), (9, 9), (3, 17)] {
        for pattern in 0..5 {
            let mut h = SparseMatrix::new(nrows, ncols);
            let mut m = Model::new(nrows, ncols);
            for r in 0..nrows {
                for c in 0..ncols {
                    let put = match pattern {
                        0 => true,
                        1 => r == 0 || c == 0,
                        2 => (r + c) % 3 == 0,
                        3 => r == nrows - 1 && c % 2 == 0,
                        _ => c == ncols - 1 && r % 2 == 1,
                    };
                    if put {
                        // inserted twice, the second does nothing
                        h.insert(r, c);
                        h.insert(r, c);
                        m.insert(r, c);
                    }
                }
            }
            check(&h, &m, &format!("{nrows}x{ncols} pattern {pattern}"));
            // knock out some entries so that weights are uneven, and re-check
            for k in 0..(nrows + ncols) {
                let (r, c) = (k % nrows, (k * 5) % ncols);
                h.remove(r, c);
                m.remove(r, c);
            }
            check(&h, &m, &format!("{nrows}x{ncols} pattern {pattern} thinned"));
            for k in 0..(nrows + ncols) {
                let (r, c) = ((k * 3) % nrows, k % ncols);
                let before = h.clone();
                let present = m.set.contains(&(r, c));
                assert_eq!(h.contains(r, c), present);
                h.insert(r, c);
                m.insert(r, c);
                if present {
                    assert_eq!(h, before);
                } else {
                    assert_eq!(h.iter_row(r).last(), Some(&c));
                    assert_eq!(h.iter_col(c).last(), Some(&r));
                }
            }
            check(&h, &m, &format!("{nrows}x{ncols} pattern {pattern} refilled"));
        }
    }
}

#[test]
fn bulk_insertion_is_insertion_one_by_one() {
    let mut rng = Lcg(11);
    for &(nrows, ncols) in SHAPES {
        if nrows == 0 || ncols == 0 {
            continue;
        }
        for _ in 0..20 {
            let mut h1 = SparseMatrix::new(nrows, ncols);
            for _ in 0..rng.below(nrows * ncols + 1) {
                h1.insert(rng.below(nrows), rng.below(ncols));
            }
            let mut h2 = h1.clone();
            // a row, with repetitions and entries already present
            let r = rng.below(nrows);
            let list: Vec<usize> = (0..rng.below(2 * ncols + 1))
                .map(|_| rng.below(ncols))
                .collect();
            h1.insert_row(r, list.iter());
            for &c in &list {
                h2.insert(r, c);
            }
            assert_eq!(h1, h2);
            // owned items too
            let mut h3 = h2.clone();
            h3.insert_row(r, list.iter().copied());
            assert_eq!(h3, h2);
            // a column
            let c = rng.below(ncols);
            let list: Vec<usize> = (0..rng.below(2 * nrows + 1))
                .map(|_| rng.below(nrows))
                .collect();
            h1.insert_col(c, list.iter());
            for &r in &list {
                h2.insert(r, c);
            }
            assert_eq!(h1, h2);
            assert_eq!(h1.alist(), h2.alist());
            // nothing to insert
            let before = h1.clone();
            h1.insert_row(r, std::iter::empty::<usize>());
            h1.insert_col(c, std::iter::empty::<&usize>());
            assert_eq!(h1, before);
        }
    }
}

#[test]
fn alist_parsing_uses_insertion() {
    // repeated entries in an alist column are the same entry
    let alist = "3 2\n3 2\n3 1 0\n2 2\n1 1 2\n2 0 0\n\n1 2\n1\n";
    let h = SparseMatrix::from_alist(alist).unwrap();
    assert_eq!(h.num_rows(), 2);
    assert_eq!(h.num_cols(), 3);
    assert_eq!(
        h.iter_all().collect::<Vec<_>>(),
        vec![(0, 0), (1, 0), (1, 1)]
    );
    assert_eq!(h.col_weight(0), 2);
    assert_eq!(h.col_weight(1), 1);
    assert_eq!(h.col_weight(2), 0);
    assert!(SparseMatrix::from_alist("3 2\n3 2\n3 1 0\n2 2\n1 3\n\n\n").is_err());
}
