// Demonstration for property C17: sparse-matrix editing behaves like a set of
// (row, column) positions.
//
// A reference model (BTreeSet of positions) is driven with the same operation
// histories as a SparseMatrix, and after every operation all the observers of
// the matrix are compared with the model. Besides general random histories on
// many shapes (including empty shapes), this file emphasises the bulk
// operations (insert_row/insert_col/set_row/set_col) with unsorted, repeated,
// overlapping, empty and full argument lists, toggle used as GF(2) addition
// with set_row used as undo, matrices read from alist text with unsorted and
// repeated entries, and bulk operations hitting an out-of-range index.

use ldpc_toolbox::sparse::SparseMatrix;
use std::collections::BTreeSet;
use std::sync::mpsc;
use std::time::Duration;

struct Rng(u64);

impl Rng {
    fn next(&mut self) -> u64 {
        // splitmix64
        self.0 = self.0.wrapping_add(0x9e37_79b9_7f4a_7c15);
        let mut z = self.0;
        z = (z ^ (z >> 30)).wrapping_mul(0xbf58_476d_1ce4_e5b9);
        z = (z ^ (z >> 27)).wrapping_mul(0x94d0_49bb_1331_11eb);
        z ^ (z >> 31)
    }

    fn below(&mut self, n: usize) -> usize {
        assert!(n > 0);
        (self.next() % (n as u64)) as usize
    }

    fn list(&mut self, max_len: usize, bound: usize) -> Vec<usize> {
        let len = self.below(max_len + 1);
        (0..len).map(|_| self.below(bound)).collect()
    }
}

type Model = BTreeSet<(usize, usize)>;

fn check(h: &SparseMatrix, model: &Model, nrows: usize, ncols: usize, what: &str) {
    assert_eq!(h.num_rows(), nrows, "num_rows after {what}");
    assert_eq!(h.num_cols(), ncols, "num_cols after {what}");
    let mut total = 0;
    for r in 0..nrows {
        let expected: BTreeSet<usize> = model
            .range((r, 0)..=(r, usize::MAX))
            .map(|&(_, c)| c)
            .collect();
        let listed: Vec<usize> = h.iter_row(r).copied().collect();
        let as_set: BTreeSet<usize> = listed.iter().copied().collect();
        assert_eq!(listed.len(), as_set.len(), "duplicates in row {r} after {what}");
        assert_eq!(as_set, expected, "row {r} after {what}");
        assert_eq!(h.row_weight(r), expected.len(), "row weight {r} after {what}");
        assert_eq!(h.iter_row(r).len(), expected.len());
        for &c in &listed {
            assert!(c < ncols);
            assert!(
                h.iter_col(c).any(|&x| x == r),
                "row {r} lists column {c} but not conversely after {what}"
            );
        }
        total += listed.len();
    }
    let mut total_cols = 0;
    for c in 0..ncols {
        let expected: BTreeSet<usize> = model
            .iter()
            .filter(|&&(_, cc)| cc == c)
            .map(|&(r, _)| r)
            .collect();
        let listed: Vec<usize> = h.iter_col(c).copied().collect();
        let as_set: BTreeSet<usize> = listed.iter().copied().collect();
        assert_eq!(listed.len(), as_set.len(), "duplicates in col {c} after {what}");
        assert_eq!(as_set, expected, "col {c} after {what}");
        assert_eq!(h.col_weight(c), expected.len(), "col weight {c} after {what}");
        for &r in &listed {
            assert!(r < nrows);
            assert!(
                h.iter_row(r).any(|&x| x == c),
                "col {c} lists row {r} but not conversely after {what}"
            );
        }
        total_cols += listed.len();
    }
    assert_eq!(total, model.len());
    assert_eq!(total_cols, model.len());
    let all: Vec<(usize, usize)> = h.iter_all().collect();
    let all_set: Model = all.iter().copied().collect();
    assert_eq!(all.len(), all_set.len(), "duplicates in iter_all after {what}");
    assert_eq!(&all_set, model, "iter_all after {what}");
    for r in 0..nrows {
        for c in 0..ncols {
            assert_eq!(
                h.contains(r, c),
                model.contains(&(r, c)),
                "contains({r}, {c}) after {what}"
            );
        }
    }
}

fn check_alist(h: &SparseMatrix, model: &Model) {
    for text in [h.alist(), h.alist_no_padding()] {
        let back = SparseMatrix::from_alist(&text).unwrap();
        assert_eq!(back.num_rows(), h.num_rows());
        assert_eq!(back.num_cols(), h.num_cols());
        let set: Model = back.iter_all().collect();
        assert_eq!(&set, model);
        assert_eq!(back.alist(), h.alist());
    }
}

// Applies one random operation to the matrix and the model.
fn step(h: &mut SparseMatrix, model: &mut Model, nrows: usize, ncols: usize, rng: &mut Rng) -> String {
    let both = nrows > 0 && ncols > 0;
    let op = rng.below(14);
    match op {
        0..=2 if both => {
            let (r, c) = (rng.below(nrows), rng.below(ncols));
            let before = h.clone();
            let present = model.contains(&(r, c));
            h.insert(r, c);
            model.insert((r, c));
            if present {
                assert!(*h == before, "insert of a present entry changed the matrix");
                assert!(before == *h);
            } else {
                assert!(*h != before);
            }
            format!("insert({r}, {c})")
        }
        3..=4 if both => {
            let (r, c) = (rng.below(nrows), rng.below(ncols));
            let before = h.clone();
            let present = model.contains(&(r, c));
            h.remove(r, c);
            model.remove(&(r, c));
            if !present {
                assert!(*h == before, "remove of an absent entry changed the matrix");
                assert!(before == *h);
            } else {
                assert!(*h != before);
            }
            format!("remove({r}, {c})")
        }
        5..=6 if both => {
            let (r, c) = (rng.below(nrows), rng.below(ncols));
            let before = h.clone();
            h.toggle(r, c);
            if !model.remove(&(r, c)) {
                model.insert((r, c));
            }
            assert!(*h != before);
            format!("toggle({r}, {c})")
        }
        7 if nrows > 0 => {
            let r = rng.below(nrows);
            h.clear_row(r);
            model.retain(|&(rr, _)| rr != r);
            format!("clear_row({r})")
        }
        8 if ncols > 0 => {
            let c = rng.below(ncols);
            h.clear_col(c);
            model.retain(|&(_, cc)| cc != c);
            format!("clear_col({c})")
        }
        9 if nrows > 0 => {
            let r = rng.below(nrows);
            let l = if ncols > 0 { rng.list(2 * ncols, ncols) } else { vec![] };
            let mut twin = h.clone();
            if rng.below(2) == 0 {
                h.insert_row(r, l.iter());
            } else {
                h.insert_row(r, l.iter().copied());
            }
            for &c in &l {
                twin.insert(r, c);
                model.insert((r, c));
            }
            assert!(*h == twin, "insert_row differs from repeated insert");
            format!("insert_row({r}, {l:?})")
        }
        10 if ncols > 0 => {
            let c = rng.below(ncols);
            let l = if nrows > 0 { rng.list(2 * nrows, nrows) } else { vec![] };
            let mut twin = h.clone();
            if rng.below(2) == 0 {
                h.insert_col(c, l.iter());
            } else {
                h.insert_col(c, l.iter().copied());
            }
            for &r in &l {
                twin.insert(r, c);
                model.insert((r, c));
            }
            assert!(*h == twin, "insert_col differs from repeated insert");
            format!("insert_col({c}, {l:?})")
        }
        11 if nrows > 0 => {
            let r = rng.below(nrows);
            let l = if ncols > 0 { rng.list(2 * ncols, ncols) } else { vec![] };
            let mut twin = h.clone();
            h.set_row(r, l.iter());
            twin.clear_row(r);
            twin.insert_row(r, l.iter());
            model.retain(|&(rr, _)| rr != r);
            for &c in &l {
                model.insert((r, c));
            }
            assert!(*h == twin, "set_row differs from clear_row + insert_row");
            format!("set_row({r}, {l:?})")
        }
        12 if ncols > 0 => {
            let c = rng.below(ncols);
            let l = if nrows > 0 { rng.list(2 * nrows, nrows) } else { vec![] };
            let mut twin = h.clone();
            h.set_col(c, l.iter().copied());
            twin.clear_col(c);
            twin.insert_col(c, l.iter());
            model.retain(|&(_, cc)| cc != c);
            for &r in &l {
                model.insert((r, c));
            }
            assert!(*h == twin, "set_col differs from clear_col + insert_col");
            format!("set_col({c}, {l:?})")
        }
        _ => {
            // a clone is an independent, equal matrix
            let copy = h.clone();
            assert!(copy == *h);
            *h = copy;
            String::from("clone")
        }
    }
}

fn random_histories() {
    let shapes = [
        (0, 0),
        (0, 5),
        (5, 0),
        (1, 1),
        (1, 9),
        (9, 1),
        (2, 2),
        (3, 4),
        (8, 8),
        (13, 29),
        (31, 6),
    ];
    for (k, &(nrows, ncols)) in shapes.iter().enumerate() {
        for seed in 0..4u64 {
            let mut rng = Rng(0x1234_5678 + 1000 * k as u64 + seed);
            let mut h = SparseMatrix::new(nrows, ncols);
            let mut model = Model::new();
            check(&h, &model, nrows, ncols, "new");
            check_alist(&h, &model);
            for n in 0..400 {
                let what = step(&mut h, &mut model, nrows, ncols, &mut rng);
                check(&h, &model, nrows, ncols, &what);
                if n % 50 == 0 {
                    check_alist(&h, &model);
                }
            }
            check_alist(&h, &model);
        }
    }
}

// One line grows very long while the crossing lines stay short, then entries
// are taken out in various orders and the line regrows; this is repeated and
// mixed with clears, so that line storage is grown, moved, released and
// reclaimed many times.
fn long_lines() {
    let (nrows, ncols) = (6, 700);
    let mut rng = Rng(77);
    let mut h = SparseMatrix::new(nrows, ncols);
    let mut model = Model::new();
    for round in 0..6 {
        let r = round % nrows;
        // grow a row, interleaving with inserts in other rows
        for c in 0..ncols {
            let c = (c * 37 + round) % ncols;
            h.insert(r, c);
            model.insert((r, c));
            if c % 5 == 0 {
                let rr = rng.below(nrows);
                let cc = rng.below(ncols);
                h.toggle(rr, cc);
                if !model.remove(&(rr, cc)) {
                    model.insert((rr, cc));
                }
            }
        }
        check(&h, &model, nrows, ncols, "long row grown");
        // remove from the front, the back and the middle
        for c in (0..ncols).step_by(3) {
            h.remove(r, c);
            model.remove(&(r, c));
        }
        for c in (0..ncols).rev().step_by(7) {
            h.toggle(r, c);
            if !model.remove(&(r, c)) {
                model.insert((r, c));
            }
        }
        check(&h, &model, nrows, ncols, "long row thinned");
        match round % 3 {
            0 => {
                h.clear_row(r);
                model.retain(|&(rr, _)| rr != r);
            }
            1 => {
                let l: Vec<usize> = (0..ncols).rev().chain(0..ncols).collect();
                h.set_row(r, l.iter());
                for c in 0..ncols {
                    model.insert((r, c));
                }
            }
            _ => {
                for c in (0..ncols).step_by(2) {
                    h.clear_col(c);
                    model.retain(|&(_, cc)| cc != c);
                }
            }
        }
        check(&h, &model, nrows, ncols, "after bulk edit of long row");
        let copy = h.clone();
        // no-ops leave the matrix equal to what it was
        for &(rr, cc) in model.iter().take(50) {
            h.insert(rr, cc);
        }
        for c in 0..ncols {
            if !model.contains(&(r, c)) {
                h.remove(r, c);
            }
        }
        assert!(h == copy);
        check(&h, &model, nrows, ncols, "no-ops");
    }
    // same thing transposed: a long column
    let (nrows, ncols) = (500, 3);
    let mut h = SparseMatrix::new(nrows, ncols);
    let mut model = Model::new();
    for round in 0..4 {
        let c = round % ncols;
        h.insert_col(c, (0..nrows).rev());
        for r in 0..nrows {
            model.insert((r, c));
        }
        check(&h, &model, nrows, ncols, "long col grown");
        for r in (0..nrows).step_by(2) {
            h.remove(r, c);
            model.remove(&(r, c));
        }
        h.set_col((c + 1) % ncols, (0..nrows).filter(|r| r % 3 == 0));
        model.retain(|&(_, cc)| cc != (c + 1) % ncols);
        for r in (0..nrows).filter(|r| r % 3 == 0) {
            model.insert((r, (c + 1) % ncols));
        }
        check(&h, &model, nrows, ncols, "long col edited");
        if round == 2 {
            for r in 0..nrows {
                h.clear_row(r);
            }
            model.clear();
            check(&h, &model, nrows, ncols, "all rows cleared");
            assert!(h == SparseMatrix::new(nrows, ncols));
        }
    }
    check_alist(&h, &model);
}

// Matrices that went through different amounts of internal churn but the same
// final sequence of effective edits compare equal; matrices with different
// sets or different dimensions do not.
fn equality() {
    let mut a = SparseMatrix::new(5, 40);
    let mut b = SparseMatrix::new(5, 40);
    // churn in b only, net effect nothing
    for c in 0..40 {
        b.insert(2, c);
    }
    for c in 0..40 {
        b.toggle(2, c);
    }
    b.insert_col(7, 0..5);
    b.clear_col(7);
    assert!(a == b);
    for (r, c) in [(0, 3), (4, 39), (2, 2), (2, 3), (0, 0)] {
        a.insert(r, c);
        b.insert(r, c);
    }
    assert!(a == b && b == a);
    b.remove(2, 3);
    assert!(a != b);
    b.insert(2, 4);
    assert!(a != b);
    assert!(SparseMatrix::new(2, 3) != SparseMatrix::new(3, 2));
    assert!(SparseMatrix::new(0, 3) != SparseMatrix::new(0, 4));
    assert!(SparseMatrix::new(0, 0) == SparseMatrix::new(0, 0));
}

fn row_of(model: &Model, r: usize) -> Vec<usize> {
    model
        .range((r, 0)..=(r, usize::MAX))
        .map(|&(_, c)| c)
        .collect()
}

// Bulk operations with all kinds of argument lists.
fn bulk_edits() {
    let (nrows, ncols) = (7, 23);
    let mut rng = Rng(4242);
    let mut h = SparseMatrix::new(nrows, ncols);
    let mut model = Model::new();
    let all_cols: Vec<usize> = (0..ncols).collect();
    let all_rows: Vec<usize> = (0..nrows).collect();
    for n in 0..600 {
        let r = rng.below(nrows);
        let c = rng.below(ncols);
        let kind = rng.below(10);
        // the argument list, for a row operation
        let mut l: Vec<usize> = match kind {
            0 => vec![],
            1 => all_cols.clone(),
            2 => all_cols.iter().rev().copied().collect(),
            3 => vec![c; 5],
            4 => row_of(&model, r), // exactly what is there
            5 => row_of(&model, r).into_iter().rev().chain(row_of(&model, r)).collect(),
            6 => all_cols.iter().copied().filter(|c| !model.contains(&(r, *c))).collect(), // complement
            7 => {
                // half of what is there plus some new
                let mut l: Vec<usize> = row_of(&model, r).into_iter().step_by(2).collect();
                l.extend(rng.list(4, ncols));
                l
            }
            _ => rng.list(30, ncols),
        };
        if rng.below(2) == 0 {
            // shuffle
            for i in (1..l.len()).rev() {
                l.swap(i, rng.below(i + 1));
            }
        }
        let before = h.clone();
        let what;
        if n % 2 == 0 {
            h.insert_row(r, l.iter());
            for &c in &l {
                model.insert((r, c));
            }
            what = format!("insert_row({r}, {l:?})");
            if kind == 0 || kind == 4 || kind == 5 {
                assert!(h == before, "{what} should not change the matrix");
            }
        } else {
            h.set_row(r, l.iter().copied());
            let old = row_of(&model, r);
            model.retain(|&(rr, _)| rr != r);
            for &c in &l {
                model.insert((r, c));
            }
            what = format!("set_row({r}, {l:?})");
            if row_of(&model, r) != old {
                assert!(h != before);
            }
            // setting again the same thing (in any order) is idempotent
            h.set_row(r, l.iter().rev());
            assert!(row_of(&model, r) == {
                let mut v: Vec<usize> = h.iter_row(r).copied().collect();
                v.sort_unstable();
                v
            });
        }
        check(&h, &model, nrows, ncols, &what);

        // and the same on columns, with lists of rows
        let mut l: Vec<usize> = match rng.below(6) {
            0 => vec![],
            1 => all_rows.clone(),
            2 => vec![r, r, r],
            3 => h.iter_col(c).copied().collect(),
            4 => all_rows.iter().copied().filter(|r| !model.contains(&(*r, c))).collect(),
            _ => rng.list(12, nrows),
        };
        l.reverse();
        let what;
        if rng.below(2) == 0 {
            h.insert_col(c, l.iter().copied());
            for &r in &l {
                model.insert((r, c));
            }
            what = format!("insert_col({c}, {l:?})");
        } else {
            h.set_col(c, l.iter());
            model.retain(|&(_, cc)| cc != c);
            for &r in &l {
                model.insert((r, c));
            }
            what = format!("set_col({c}, {l:?})");
        }
        check(&h, &model, nrows, ncols, &what);
        if n % 100 == 0 {
            check_alist(&h, &model);
        }
    }
}

// Row additions over GF(2) done with toggle, undone by restoring the row with
// set_row (as backtracking constructions do).
fn gf2_row_additions() {
    let (nrows, ncols) = (9, 31);
    let mut rng = Rng(99);
    let mut h = SparseMatrix::new(nrows, ncols);
    let mut model = Model::new();
    for r in 0..nrows {
        let l = rng.list(12, ncols);
        h.insert_row(r, l.iter());
        for &c in &l {
            model.insert((r, c));
        }
    }
    check(&h, &model, nrows, ncols, "initial fill");
    for _ in 0..200 {
        let dst = rng.below(nrows);
        let src = (dst + 1 + rng.below(nrows - 1)) % nrows;
        let saved: Vec<usize> = h.iter_row(dst).copied().collect();
        let snapshot = h.clone();
        let addend: Vec<usize> = h.iter_row(src).copied().collect();
        for &c in &addend {
            h.toggle(dst, c);
            if !model.remove(&(dst, c)) {
                model.insert((dst, c));
            }
        }
        check(&h, &model, nrows, ncols, "row addition");
        // symmetric difference
        let expected: BTreeSet<usize> = saved
            .iter()
            .copied()
            .filter(|c| !addend.contains(c))
            .chain(addend.iter().copied().filter(|c| !saved.contains(c)))
            .collect();
        assert_eq!(h.iter_row(dst).copied().collect::<BTreeSet<_>>(), expected);
        match rng.below(3) {
            0 => {
                // undo by adding again
                for &c in &addend {
                    h.toggle(dst, c);
                    if !model.remove(&(dst, c)) {
                        model.insert((dst, c));
                    }
                }
                check(&h, &model, nrows, ncols, "row addition undone by adding again");
            }
            1 => {
                // undo by restoring the saved row
                h.set_row(dst, saved.iter());
                model.retain(|&(rr, _)| rr != dst);
                for &c in &saved {
                    model.insert((dst, c));
                }
                check(&h, &model, nrows, ncols, "row addition undone by set_row");
                let a: Model = h.iter_all().collect();
                let b: Model = snapshot.iter_all().collect();
                assert_eq!(a, b);
            }
            _ => {}
        }
    }
}

// from_alist with entries given in any order, repeated, and with padding in
// odd places gives the set of positions listed in the column part.
fn alist_unsorted() {
    let text = "5 4\n3 3\n3 1 2 0 3\n2 3 1 3\n4 1 3\n0 2 0\n3 3 2 3\n\n4 2 1 4 0 0\n1 2 5\n1 3 5\n1 3 5\n1 5 0\n";
    let h = SparseMatrix::from_alist(text).unwrap();
    let model: Model = [
        (3, 0),
        (0, 0),
        (2, 0),
        (1, 1),
        (2, 2),
        (1, 2),
        (3, 4),
        (1, 4),
        (0, 4),
    ]
    .into_iter()
    .collect();
    check(&h, &model, 4, 5, "from_alist");
    check_alist(&h, &model);
    // errors are still reported
    assert!(SparseMatrix::from_alist("2 2\n1 1\n1 1\n1 1\n1\n3\n").is_err());
    assert!(SparseMatrix::from_alist("2 2\n1 1\n1 1\n1 1\n1\nx\n").is_err());
    assert!(SparseMatrix::from_alist("2 2\n1 1\n1 1\n1 1\n1").is_err());
    assert!(SparseMatrix::from_alist("2 0\n0 0\n0 0\n\n1\n\n").is_err());
    let empty = SparseMatrix::from_alist("0 0\n").unwrap();
    check(&empty, &Model::new(), 0, 0, "empty alist");
    let h = SparseMatrix::from_alist("3 0\n0 0\n0 0 0\n\n0\n\n0 0\n").unwrap();
    check(&h, &Model::new(), 0, 3, "alist without rows");
}

// A bulk operation that meets an out-of-range index panics; the entries
// listed before the offending one have been processed, and the matrix is
// still a consistent set.
fn out_of_range_in_bulk() {
    use std::panic::{AssertUnwindSafe, catch_unwind};
    let (nrows, ncols) = (4, 6);
    let mut h = SparseMatrix::new(nrows, ncols);
    let mut model = Model::new();
    for (r, c) in [(1, 1), (1, 4), (2, 4), (3, 0)] {
        h.insert(r, c);
        model.insert((r, c));
    }
    let r = catch_unwind(AssertUnwindSafe(|| h.insert_row(1, [5usize, 1, 2, 6, 3].iter())));
    assert!(r.is_err());
    model.insert((1, 5));
    model.insert((1, 2));
    check(&h, &model, nrows, ncols, "insert_row with out-of-range column");
    let r = catch_unwind(AssertUnwindSafe(|| h.insert_col(4, [0usize, 2, 9, 3].iter())));
    assert!(r.is_err());
    model.insert((0, 4));
    check(&h, &model, nrows, ncols, "insert_col with out-of-range row");
    let r = catch_unwind(AssertUnwindSafe(|| h.set_row(1, [3usize, 3, 0, 77, 1].iter())));
    assert!(r.is_err());
    model.retain(|&(rr, _)| rr != 1);
    model.insert((1, 3));
    model.insert((1, 0));
    check(&h, &model, nrows, ncols, "set_row with out-of-range column");
    let r = catch_unwind(AssertUnwindSafe(|| h.set_col(4, [3usize, 4].iter())));
    assert!(r.is_err());
    model.retain(|&(_, cc)| cc != 4);
    model.insert((3, 4));
    check(&h, &model, nrows, ncols, "set_col with out-of-range row");
    // out-of-range line
    let copy = h.clone();
    assert!(catch_unwind(AssertUnwindSafe(|| h.set_row(4, [0usize].iter()))).is_err());
    assert!(catch_unwind(AssertUnwindSafe(|| h.set_col(6, [0usize].iter()))).is_err());
    assert!(catch_unwind(AssertUnwindSafe(|| h.insert_row(4, [0usize].iter()))).is_err());
    assert!(catch_unwind(AssertUnwindSafe(|| h.insert_col(6, [0usize].iter()))).is_err());
    assert!(catch_unwind(AssertUnwindSafe(|| h.clear_row(4))).is_err());
    assert!(catch_unwind(AssertUnwindSafe(|| h.clear_col(6))).is_err());
    assert!(catch_unwind(AssertUnwindSafe(|| h.insert(4, 0))).is_err());
    assert!(catch_unwind(AssertUnwindSafe(|| h.insert(0, 6))).is_err());
    assert!(catch_unwind(AssertUnwindSafe(|| h.remove(4, 0))).is_err());
    assert!(catch_unwind(AssertUnwindSafe(|| h.remove(0, 6))).is_err());
    assert!(catch_unwind(AssertUnwindSafe(|| h.toggle(4, 0))).is_err());
    assert!(catch_unwind(AssertUnwindSafe(|| h.toggle(0, 6))).is_err());
    // nothing to insert: nothing happens, whatever the line
    h.insert_row(4, std::iter::empty::<usize>());
    h.insert_col(6, std::iter::empty::<&usize>());
    assert!(h == copy);
    check(&h, &model, nrows, ncols, "out-of-range lines");
}

fn with_timeout<F: FnOnce() + Send + 'static>(name: &'static str, f: F) {
    let (tx, rx) = mpsc::channel();
    std::thread::spawn(move || {
        f();
        let _ = tx.send(());
    });
    match rx.recv_timeout(Duration::from_secs(300)) {
        Ok(()) => {}
        Err(mpsc::RecvTimeoutError::Timeout) => panic!("{name} timed out"),
        Err(mpsc::RecvTimeoutError::Disconnected) => panic!("{name} failed"),
    }
}

#[test]
fn sparse_random_histories_agree_with_set_model() {
    with_timeout("random_histories", random_histories);
}

#[test]
fn sparse_long_lines_agree_with_set_model() {
    with_timeout("long_lines", long_lines);
}

#[test]
fn sparse_equality() {
    with_timeout("equality", equality);
}

#[test]
fn sparse_bulk_edits_agree_with_set_model() {
    with_timeout("bulk_edits", bulk_edits);
}

#[test]
fn sparse_gf2_row_additions() {
    with_timeout("gf2_row_additions", gf2_row_additions);
}

#[test]
fn sparse_alist_unsorted() {
    with_timeout("alist_unsorted", alist_unsorted);
}

#[test]
fn sparse_out_of_range_in_bulk() {
    with_timeout("out_of_range_in_bulk", out_of_range_in_bulk);
}
