// Demo test for change 1 (level-synchronous rewrite of the BFS / local girth
// search in src/sparse/bfs.rs).
//
// Exercises SparseMatrix::bfs, SparseMatrix::girth_at_node_with_max and
// SparseMatrix::girth (public API) on many graphs, comparing them with
// independent reference implementations written in this file, and then the two
// constructions that depend on them (MacKay-Neal with a girth constraint and
// PEG), checking the stated guarantees and the exact reproducibility of the
// results (golden digests obtained with the unchanged code).

use ldpc_toolbox::mackay_neal::{self, FillPolicy};
use ldpc_toolbox::peg;
use ldpc_toolbox::sparse::{Node, SparseMatrix};
use std::collections::VecDeque;

// ---------------------------------------------------------------- helpers

struct Lcg(u64);

impl Lcg {
    fn next(&mut self) -> u64 {
        self.0 = self
            .0
            .wrapping_mul(6364136223846793005)
            .wrapping_add(1442695040888963407);
        self.0 >> 33
    }
    fn below(&mut self, n: usize) -> usize {
        (self.next() % (n as u64)) as usize
    }
}

fn fnv1a(hash: &mut u64, data: &[u8]) {
    for &b in data {
        *hash ^= b as u64;
        *hash = hash.wrapping_mul(0x100000001b3);
    }
}

const FNV_INIT: u64 = 0xcbf29ce484222325;

fn neighbours(h: &SparseMatrix, node: Node) -> Vec<Node> {
    match node {
        Node::Row(r) => h.iter_row(r).map(|&c| Node::Col(c)).collect(),
        Node::Col(c) => h.iter_col(c).map(|&r| Node::Row(r)).collect(),
    }
}

fn all_nodes(h: &SparseMatrix) -> Vec<Node> {
    (0..h.num_rows())
        .map(Node::Row)
        .chain((0..h.num_cols()).map(Node::Col))
        .collect()
}

struct Dist {
    rows: Vec<Option<usize>>,
    cols: Vec<Option<usize>>,
}

impl Dist {
    fn new(h: &SparseMatrix) -> Dist {
        Dist {
            rows: vec![None; h.num_rows()],
            cols: vec![None; h.num_cols()],
        }
    }
    fn get(&mut self, n: Node) -> &mut Option<usize> {
        match n {
            Node::Row(r) => &mut self.rows[r],
            Node::Col(c) => &mut self.cols[c],
        }
    }
}

/// Textbook BFS with a FIFO queue.
fn reference_bfs(h: &SparseMatrix, root: Node) -> Dist {
    let mut dist = Dist::new(h);
    *dist.get(root) = Some(0);
    let mut queue = VecDeque::new();
    queue.push_back(root);
    while let Some(n) = queue.pop_front() {
        let d = dist.get(n).unwrap();
        for m in neighbours(h, n) {
            if dist.get(m).is_none() {
                *dist.get(m) = Some(d + 1);
                queue.push_back(m);
            }
        }
    }
    dist
}

/// Reference for girth_at_node_with_max: BFS from the root that remembers the
/// edge through which each node was discovered; the first time another edge
/// leads to an already discovered node, the sum of the two path lengths is the
/// answer (if it does not exceed max). Paths longer than max are not explored.
fn reference_local_girth(h: &SparseMatrix, root: Node, max: usize) -> Option<usize> {
    let mut dist = Dist::new(h);
    *dist.get(root) = Some(0);
    let mut queue: VecDeque<(Node, Option<Node>, usize)> = VecDeque::new();
    queue.push_back((root, None, 0));
    while let Some((n, parent, len)) = queue.pop_front() {
        for m in neighbours(h, n) {
            if Some(m) == parent {
                continue;
            }
            if let Some(d) = *dist.get(m) {
                let total = d + len + 1;
                return if total <= max { Some(total) } else { None };
            }
            *dist.get(m) = Some(len + 1);
            if len + 1 < max {
                queue.push_back((m, Some(n), len + 1));
            }
        }
    }
    None
}

/// Independent computation of the girth: for every root, BFS tree plus the
/// shortest closed walk through a non-tree edge; the minimum over all the roots
/// is the length of the shortest cycle.
fn reference_girth(h: &SparseMatrix) -> Option<usize> {
    let mut best: Option<usize> = None;
    for root in all_nodes(h) {
        let mut dist = Dist::new(h);
        let mut parent_of: Vec<(Node, Option<Node>)> = Vec::new();
        *dist.get(root) = Some(0);
        let mut queue = VecDeque::new();
        queue.push_back((root, None::<Node>));
        while let Some((n, parent)) = queue.pop_front() {
            parent_of.push((n, parent));
            let d = dist.get(n).unwrap();
            for m in neighbours(h, n) {
                if Some(m) == parent {
                    continue;
                }
                match *dist.get(m) {
                    None => {
                        *dist.get(m) = Some(d + 1);
                        queue.push_back((m, Some(n)));
                    }
                    Some(dm) => {
                        let len = d + dm + 1;
                        if best.is_none_or(|b| len < b) {
                            best = Some(len);
                        }
                    }
                }
            }
        }
    }
    best
}

fn check_graph(h: &SparseMatrix, label: &str) {
    for root in all_nodes(h) {
        let got = h.bfs(root);
        let want = reference_bfs(h, root);
        assert_eq!(got.row_nodes_distance, want.rows, "{label}: bfs rows {root:?}");
        assert_eq!(got.col_nodes_distance, want.cols, "{label}: bfs cols {root:?}");
        for max in (0..=14).chain([usize::MAX / 2, usize::MAX]) {
            assert_eq!(
                h.girth_at_node_with_max(root, max),
                reference_local_girth(h, root, max),
                "{label}: local girth {root:?} max {max}"
            );
        }
        assert_eq!(
            h.girth_at_node(root),
            reference_local_girth(h, root, usize::MAX),
            "{label}: local girth {root:?}"
        );
    }
    let girth = reference_girth(h);
    assert_eq!(h.girth(), girth, "{label}: girth");
    for max in 0..=14 {
        assert_eq!(
            h.girth_with_max(max),
            girth.filter(|&g| g <= max),
            "{label}: girth with max {max}"
        );
    }
}

fn random_matrix(rng: &mut Lcg, nrows: usize, ncols: usize, ones: usize) -> SparseMatrix {
    let mut h = SparseMatrix::new(nrows, ncols);
    if nrows > 0 && ncols > 0 {
        for _ in 0..ones {
            h.insert(rng.below(nrows), rng.below(ncols));
        }
    }
    h
}

// ------------------------------------------------------------------ tests

#[test]
fn bfs_and_girth_on_structured_graphs() {
    // no nodes, no edges
    check_graph(&SparseMatrix::new(0, 0), "0x0");
    check_graph(&SparseMatrix::new(0, 3), "0x3");
    check_graph(&SparseMatrix::new(3, 0), "3x0");
    check_graph(&SparseMatrix::new(3, 4), "3x4 empty");

    // single edge, single 4-cycle
    let mut h = SparseMatrix::new(2, 2);
    h.insert(0, 0);
    check_graph(&h, "single edge");
    h.insert(0, 1);
    h.insert(1, 0);
    check_graph(&h, "path of 3 edges");
    h.insert(1, 1);
    check_graph(&h, "4-cycle");

    // complete bipartite graphs
    for (n, m) in [(1, 5), (5, 1), (2, 3), (4, 4), (6, 3)] {
        let mut h = SparseMatrix::new(n, m);
        for i in 0..n {
            for j in 0..m {
                h.insert(i, j);
            }
        }
        check_graph(&h, &format!("complete {n}x{m}"));
    }

    // circulants: a single cycle of length 2n
    for n in 2..9 {
        let mut h = SparseMatrix::new(n, n);
        for j in 0..n {
            h.insert(j, j);
            h.insert(j, (j + 1) % n);
        }
        check_graph(&h, &format!("circulant {n}"));
    }

    // a path (tree, no cycles), entries inserted in a scrambled order
    let n = 7;
    let mut h = SparseMatrix::new(n, n);
    for j in (0..n).rev() {
        if j + 1 < n {
            h.insert(j, j + 1);
        }
        h.insert(j, j);
    }
    check_graph(&h, "path");

    // a star plus a pendant cycle that does not go through the centre
    let mut h = SparseMatrix::new(5, 5);
    for c in 0..3 {
        h.insert(0, c);
    }
    h.insert(1, 2);
    h.insert(1, 3);
    h.insert(2, 3);
    h.insert(2, 4);
    h.insert(3, 4);
    h.insert(3, 2);
    check_graph(&h, "star with pendant cycle");

    // two components, one with a 6-cycle and one with a 4-cycle
    let mut h = SparseMatrix::new(6, 6);
    for j in 0..3 {
        h.insert(j, j);
        h.insert(j, (j + 1) % 3);
    }
    h.insert(3, 3);
    h.insert(3, 4);
    h.insert(4, 3);
    h.insert(4, 4);
    check_graph(&h, "two components");
}

#[test]
fn bfs_and_girth_on_random_graphs() {
    let mut rng = Lcg(0x5eed);
    let mut count = 0;
    for nrows in [1, 2, 3, 5, 8, 12] {
        for ncols in [1, 2, 4, 7, 12, 16] {
            for density in [1, 2, 3, 5] {
                let ones = (nrows + ncols) * density / 2;
                let h = random_matrix(&mut rng, nrows, ncols, ones);
                check_graph(&h, &format!("random {nrows}x{ncols} ~{ones} ones"));
                count += 1;
            }
        }
    }
    assert_eq!(count, 144);
}

fn check_mackay_neal(conf: &mackay_neal::Config, h: &SparseMatrix) {
    assert_eq!(h.num_rows(), conf.nrows);
    assert_eq!(h.num_cols(), conf.ncols);
    for c in 0..conf.ncols {
        assert_eq!(h.col_weight(c), conf.wc, "{conf:?}");
    }
    for r in 0..conf.nrows {
        assert!(h.row_weight(r) <= conf.wr, "{conf:?}");
    }
    if let Some(g) = conf.min_girth {
        assert!(reference_girth(h).is_none_or(|x| x >= g), "{conf:?}");
    }
}

#[test]
fn mackay_neal_with_girth_constraint() {
    let mut digest = FNV_INIT;
    let mut successes = 0;
    let mut failures = 0;
    for (nrows, ncols, wr, wc) in [
        (4, 8, 4, 2),
        (6, 12, 4, 2),
        (8, 16, 6, 3),
        (10, 20, 4, 2),
        (12, 16, 4, 3),
        (15, 20, 4, 3),
        (5, 5, 2, 2),
        (9, 12, 5, 3),
    ] {
        for min_girth in [None, Some(4), Some(6), Some(8), Some(10)] {
            for girth_trials in [0, 3, 50] {
                for fill_policy in [FillPolicy::Uniform, FillPolicy::Random] {
                    let conf = mackay_neal::Config {
                        nrows,
                        ncols,
                        wr,
                        wc,
                        backtrack_cols: 2,
                        backtrack_trials: 5,
                        min_girth,
                        girth_trials,
                        fill_policy,
                    };
                    for seed in 0..6u64 {
                        let result = conf.run(seed);
                        assert_eq!(result, conf.run(seed), "not reproducible");
                        match &result {
                            Ok(h) => {
                                check_mackay_neal(&conf, h);
                                successes += 1;
                                fnv1a(&mut digest, b"ok");
                                fnv1a(&mut digest, h.alist().as_bytes());
                                // insertion order is part of the result too
                                for c in 0..ncols {
                                    for &r in h.iter_col(c) {
                                        fnv1a(&mut digest, &(r as u32).to_le_bytes());
                                    }
                                }
                            }
                            Err(e) => {
                                failures += 1;
                                fnv1a(&mut digest, e.to_string().as_bytes());
                            }
                        }
                    }
                }
            }
        }
    }
    assert!(successes > 300, "{successes}");
    assert!(failures > 100, "{failures}");
    assert_eq!(
        (successes, failures, digest),
        (GOLDEN_MN.0, GOLDEN_MN.1, GOLDEN_MN.2),
        "MacKay-Neal results differ from those of the reference code"
    );
}

/// Replays a PEG result edge by edge (edges of a column are stored in
/// insertion order) and checks that each edge went to a check node that was
/// unreachable from the column (or, if all were reachable, at maximal
/// distance) and of minimum degree among those.
fn check_peg(conf: &peg::Config, h: &SparseMatrix) {
    assert_eq!(h.num_rows(), conf.nrows);
    assert_eq!(h.num_cols(), conf.ncols);
    let mut g = SparseMatrix::new(conf.nrows, conf.ncols);
    for c in 0..conf.ncols {
        assert_eq!(h.col_weight(c), conf.wc.min(conf.nrows), "{conf:?}");
        for &r in h.iter_col(c) {
            let dist = reference_bfs(&g, Node::Col(c)).rows;
            let key = |j: usize| {
                // unreachable first, then larger distance, then smaller degree
                (
                    dist[j].map_or(0, |d| usize::MAX - d),
                    g.row_weight(j),
                )
            };
            let best = (0..conf.nrows).map(key).min().unwrap();
            assert_eq!(key(r), best, "{conf:?}: col {c} row {r}");
            g.insert(r, c);
        }
    }
    assert_eq!(&g, h);
}

#[test]
fn peg_uses_bfs_distances() {
    let mut digest = FNV_INIT;
    for (nrows, ncols, wc) in [
        (1, 1, 1),
        (1, 4, 3),
        (3, 5, 5),
        (4, 8, 2),
        (6, 12, 3),
        (10, 20, 3),
        (16, 24, 4),
        (7, 30, 2),
        (5, 3, 0),
        (4, 0, 2),
    ] {
        let conf = peg::Config { nrows, ncols, wc };
        let mut distinct = std::collections::HashSet::new();
        for seed in 0..8u64 {
            let h = conf.run(seed).unwrap();
            assert_eq!(h, conf.run(seed).unwrap(), "not reproducible");
            check_peg(&conf, &h);
            fnv1a(&mut digest, h.alist().as_bytes());
            for c in 0..ncols {
                for &r in h.iter_col(c) {
                    fnv1a(&mut digest, &(r as u32).to_le_bytes());
                }
            }
            distinct.insert(h.alist());
        }
        if nrows >= 4 && ncols >= 8 && wc >= 2 {
            assert!(distinct.len() > 1, "seeds do not matter for {conf:?}");
        }
    }
    // no check nodes at all
    assert_eq!(
        peg::Config {
            nrows: 0,
            ncols: 3,
            wc: 1
        }
        .run(0),
        Err(peg::Error::NoAvailRows)
    );
    assert_eq!(
        digest, GOLDEN_PEG,
        "PEG results differ from those of the reference code"
    );
}

// Obtained with the unchanged code.
const GOLDEN_MN: (usize, usize, u64) = (655, 785, 16861621628415694133);
const GOLDEN_PEG: u64 = 16932836689962079868;
