//! Demonstration for C20 (code generation subcommands): the dvbs2, ccsds,
//! ccsds-c2, peg, mackay-neal and systematic subcommands print exactly the
//! alist of the matrix that the library constructs (or its girth), and invalid
//! rates, block sizes or files give a non-zero exit status with a message and
//! no panic.
//!
//! The test runs the executable and compares what it prints, byte by byte, with
//! what the public API of the library returns for the same parameters.

use ldpc_toolbox::codes::ccsds::{AR4JACode, AR4JAInfoSize, AR4JARate, C2Code};
use ldpc_toolbox::codes::dvbs2::Code;
use ldpc_toolbox::sparse::SparseMatrix;
use ldpc_toolbox::systematic::parity_to_systematic;
use std::io::Read;
use std::path::PathBuf;
use std::process::{Command, Stdio};
use std::time::{Duration, Instant};

const BIN: &str = env!("CARGO_BIN_EXE_ldpc-toolbox");
const TIMEOUT: Duration = Duration::from_secs(300);

struct Outcome {
    status: Option<i32>,
    stdout: String,
    stderr: String,
}

/// Runs the executable with a time limit and collects everything it prints.
fn run<S: AsRef<std::ffi::OsStr>>(args: &[S]) -> Outcome {
    let mut child = Command::new(BIN)
        .args(args)
        .env_remove("RUST_BACKTRACE")
        .stdin(Stdio::null())
        .stdout(Stdio::piped())
        .stderr(Stdio::piped())
        .spawn()
        .expect("cannot run the executable");
    let mut out = child.stdout.take().unwrap();
    let mut err = child.stderr.take().unwrap();
    let out_reader = std::thread::spawn(move || {
        let mut v = Vec::new();
        out.read_to_end(&mut v).map(|_| v)
    });
    let err_reader = std::thread::spawn(move || {
        let mut v = Vec::new();
        err.read_to_end(&mut v).map(|_| v)
    });
    let deadline = Instant::now() + TIMEOUT;
    let status = loop {
        match child.try_wait().expect("cannot wait for the executable") {
            Some(status) => break status,
            None if Instant::now() > deadline => {
                let _ = child.kill();
                let _ = child.wait();
                panic!("the executable did not finish in time");
            }
            None => std::thread::sleep(Duration::from_millis(5)),
        }
    };
    let stdout = out_reader.join().unwrap().expect("cannot read stdout");
    let stderr = err_reader.join().unwrap().expect("cannot read stderr");
    Outcome {
        status: status.code(),
        stdout: String::from_utf8(stdout).expect("stdout is not UTF-8"),
        stderr: String::from_utf8(stderr).expect("stderr is not UTF-8"),
    }
}

/// The command succeeds, printing exactly `stdout` and `stderr`.
fn expect_output<S: AsRef<std::ffi::OsStr>>(args: &[S], stdout: &str, stderr: &str) {
    let what = describe(args);
    let outcome = run(args);
    assert_eq!(outcome.status, Some(0), "{what}: exit status");
    // avoid printing huge matrices when the assertion fails
    assert!(
        outcome.stdout == stdout,
        "{what}: unexpected standard output ({} bytes, expected {})",
        outcome.stdout.len(),
        stdout.len()
    );
    assert_eq!(outcome.stderr, stderr, "{what}: standard error");
}

/// The command fails with a message (and without a panic) and prints nothing
/// to the standard output.
fn expect_failure<S: AsRef<std::ffi::OsStr>>(args: &[S]) {
    let what = describe(args);
    let outcome = run(args);
    match outcome.status {
        Some(code) => {
            assert_ne!(code, 0, "{what}: exit status is zero");
            assert_ne!(code, 101, "{what}: exit status of a panic");
        }
        None => panic!("{what}: killed by a signal"),
    }
    assert!(!outcome.stderr.trim().is_empty(), "{what}: no message");
    assert!(
        !outcome.stderr.contains("panicked"),
        "{what}: panic: {}",
        outcome.stderr
    );
    assert!(outcome.stdout.is_empty(), "{what}: something was printed");
}

fn describe<S: AsRef<std::ffi::OsStr>>(args: &[S]) -> String {
    args.iter()
        .map(|a| a.as_ref().to_string_lossy().into_owned())
        .collect::<Vec<_>>()
        .join(" ")
}

fn girth_line(h: &SparseMatrix) -> String {
    match h.girth() {
        Some(g) => format!("Code girth = {g}\n"),
        None => "Code girth is infinite\n".to_string(),
    }
}

struct TempDir(PathBuf);

impl TempDir {
    fn new(name: &str) -> TempDir {
        let path = std::env::temp_dir().join(format!("c20p3-3-{}-{}", name, std::process::id()));
        let _ = std::fs::remove_dir_all(&path);
        std::fs::create_dir_all(&path).unwrap();
        TempDir(path)
    }

    fn file(&self, name: &str, contents: &str) -> PathBuf {
        let path = self.0.join(name);
        std::fs::write(&path, contents).unwrap();
        path
    }
}

impl Drop for TempDir {
    fn drop(&mut self) {
        let _ = std::fs::remove_dir_all(&self.0);
    }
}

const DVBS2_NORMAL: [(&str, Code); 11] = [
    ("1/4", Code::R1_4),
    ("1/3", Code::R1_3),
    ("2/5", Code::R2_5),
    ("1/2", Code::R1_2),
    ("3/5", Code::R3_5),
    ("2/3", Code::R2_3),
    ("3/4", Code::R3_4),
    ("4/5", Code::R4_5),
    ("5/6", Code::R5_6),
    ("8/9", Code::R8_9),
    ("9/10", Code::R9_10),
];

const DVBS2_SHORT: [(&str, Code); 10] = [
    ("1/4", Code::R1_4short),
    ("1/3", Code::R1_3short),
    ("2/5", Code::R2_5short),
    ("1/2", Code::R1_2short),
    ("3/5", Code::R3_5short),
    ("2/3", Code::R2_3short),
    ("3/4", Code::R3_4short),
    ("4/5", Code::R4_5short),
    ("5/6", Code::R5_6short),
    ("8/9", Code::R8_9short),
];

const INVALID_RATES: [&str; 30] = [
    "", " ", "/", "1/", "/2", "1", "12", "0.5", "1/2 ", " 1/2", "1 /2", "1/ 2", "+1/2", "1/+2",
    "01/2", "1/02", "2/4", "4/8", "18/20", "10/9", "2/1", "1/2/3", "1/2/", "1\\2", "1:2", "half",
    "7/8", "9/11", "4294967297/2", "1/4294967298",
];

#[test]
fn dvbs2_all_codes() {
    let mut seen = Vec::new();
    for (rate, code) in DVBS2_NORMAL {
        let alist = code.h().alist();
        expect_output(&["dvbs2", "--rate", rate], &alist, "");
        // the options can be given in other ways
        expect_output(&["dvbs2", "-r", rate], &alist, "");
        assert!(alist.starts_with("64800 "));
        seen.push(alist);
    }
    for (rate, code) in DVBS2_SHORT {
        let alist = code.h().alist();
        expect_output(&["dvbs2", "--rate", rate, "--short"], &alist, "");
        let joined = format!("--rate={rate}");
        expect_output(&["dvbs2", "--short", joined.as_str()], &alist, "");
        assert!(alist.starts_with("16200 "));
        seen.push(alist);
    }
    // all the codes are different
    for (j, a) in seen.iter().enumerate() {
        for b in &seen[j + 1..] {
            assert!(a != b);
        }
    }
}

#[test]
fn dvbs2_girth() {
    expect_output(&["dvbs2", "--rate", "1/2", "--girth"], "Code girth = 6\n", "");
    for (rate, code) in [DVBS2_SHORT[0], DVBS2_SHORT[3], DVBS2_SHORT[9]] {
        expect_output(
            &["dvbs2", "--rate", rate, "--short", "--girth"],
            &girth_line(&code.h()),
            "",
        );
    }
}

#[test]
fn dvbs2_invalid() {
    expect_failure(&["dvbs2", "--rate", "9/10", "--short"]);
    expect_failure(&["dvbs2", "--rate", "9/10", "--short", "--girth"]);
    for rate in INVALID_RATES {
        expect_failure(&["dvbs2".to_string(), format!("--rate={rate}")]);
        expect_failure(&[
            "dvbs2".to_string(),
            format!("--rate={rate}"),
            "--short".to_string(),
        ]);
        expect_failure(&[
            "dvbs2".to_string(),
            format!("--rate={rate}"),
            "--girth".to_string(),
        ]);
    }
    expect_failure(&["dvbs2"]);
    expect_failure(&["dvbs2", "--short"]);
}

const CCSDS_RATES: [(&str, AR4JARate); 3] = [
    ("1/2", AR4JARate::R1_2),
    ("2/3", AR4JARate::R2_3),
    ("4/5", AR4JARate::R4_5),
];

const CCSDS_SIZES: [(&str, AR4JAInfoSize); 3] = [
    ("1024", AR4JAInfoSize::K1024),
    ("4096", AR4JAInfoSize::K4096),
    ("16384", AR4JAInfoSize::K16384),
];

#[test]
fn ccsds_all_codes() {
    let mut seen = Vec::new();
    for (rate, r) in CCSDS_RATES {
        for (size, k) in CCSDS_SIZES {
            let h = AR4JACode::new(r, k).h();
            let alist = h.alist();
            expect_output(&["ccsds", "--rate", rate, "--block-size", size], &alist, "");
            expect_output(&["ccsds", "--block-size", size, "-r", rate], &alist, "");
            if size != "16384" {
                expect_output(
                    &["ccsds", "--rate", rate, "--block-size", size, "--girth"],
                    &girth_line(&h),
                    "",
                );
            }
            seen.push(alist);
        }
    }
    for (j, a) in seen.iter().enumerate() {
        for b in &seen[j + 1..] {
            assert!(a != b);
        }
    }
    expect_output(
        &["ccsds", "--rate", "1/2", "--block-size", "1024", "--girth"],
        "Code girth = 6\n",
        "",
    );
}

#[test]
fn ccsds_invalid() {
    for rate in INVALID_RATES
        .iter()
        .copied()
        .chain(["1/4", "1/3", "3/4", "5/6", "8/9", "9/10"])
    {
        for size in ["1024", "4096", "16384", "1000"] {
            expect_failure(&[
                "ccsds".to_string(),
                format!("--rate={rate}"),
                format!("--block-size={size}"),
            ]);
        }
    }
    for size in [
        "0",
        "1",
        "256",
        "1023",
        "1025",
        "2048",
        "4095",
        "8192",
        "16383",
        "32768",
        "65536",
        "262144",
        "4611686018427387904",
        "18446744073709551615",
        "18446744073709551616",
        "-1024",
        "1024.0",
        "1k",
        "",
    ] {
        for (rate, _) in CCSDS_RATES {
            expect_failure(&[
                "ccsds".to_string(),
                format!("--rate={rate}"),
                format!("--block-size={size}"),
            ]);
            expect_failure(&[
                "ccsds".to_string(),
                format!("--rate={rate}"),
                format!("--block-size={size}"),
                "--girth".to_string(),
            ]);
        }
    }
    expect_failure(&["ccsds", "--rate", "1/2"]);
    expect_failure(&["ccsds", "--block-size", "1024"]);
}

#[test]
fn ccsds_c2() {
    let alist = C2Code::new().h().alist();
    expect_output(&["ccsds-c2"], &alist, "");
    assert!(alist.starts_with("8176 1022\n"));
    expect_failure(&["ccsds-c2", "--rate", "7/8"]);
}

#[test]
fn peg() {
    use ldpc_toolbox::peg::Config;
    for (nrows, ncols, wc, seed) in [
        (6, 12, 3, 0u64),
        (6, 12, 3, 1),
        (50, 100, 3, 42),
        (20, 80, 4, 7),
        (100, 110, 2, 3),
        (5, 5, 1, 0),
        (4, 9, 0, 0),
        (1, 1, 1, 18446744073709551615),
    ] {
        let conf = Config { nrows, ncols, wc };
        let args = [
            "peg".to_string(),
            nrows.to_string(),
            ncols.to_string(),
            wc.to_string(),
            seed.to_string(),
        ];
        match conf.run(seed) {
            Ok(h) => {
                let stdout = format!("{}\n", h.alist());
                expect_output(&args, &stdout, "");
                let girth = match h.girth() {
                    Some(g) => format!("Code girth = {g}\n"),
                    None => "Code girth = infinity (there are no cycles)\n".to_string(),
                };
                let mut with_girth = args.to_vec();
                with_girth.push("--girth".to_string());
                expect_output(&with_girth, &stdout, &girth);
            }
            Err(_) => expect_failure(&args),
        }
    }
    // a construction that cannot be done
    let impossible = Config {
        nrows: 3,
        ncols: 4,
        wc: 5,
    };
    if impossible.run(0).is_err() {
        expect_failure(&["peg", "3", "4", "5", "0"]);
        expect_failure(&["peg", "3", "4", "5", "0", "--girth"]);
    }
    expect_failure(&["peg", "3", "4", "5"]);
    expect_failure(&["peg", "3", "4", "x", "0"]);
    expect_failure(&["peg", "3", "4", "1", "-1"]);
}

#[test]
fn mackay_neal() {
    use ldpc_toolbox::mackay_neal::{Config, FillPolicy};
    let base = Config {
        nrows: 6,
        ncols: 12,
        wr: 6,
        wc: 3,
        backtrack_cols: 0,
        backtrack_trials: 0,
        min_girth: None,
        girth_trials: 0,
        fill_policy: FillPolicy::Random,
    };
    let mut cases: Vec<(Config, Vec<&str>)> = vec![
        (base.clone(), vec![]),
        (
            Config {
                fill_policy: FillPolicy::Uniform,
                ..base.clone()
            },
            vec!["--uniform"],
        ),
        (
            Config {
                nrows: 50,
                ncols: 100,
                fill_policy: FillPolicy::Uniform,
                min_girth: Some(6),
                girth_trials: 100,
                ..base.clone()
            },
            vec!["--uniform", "--min-girth", "6", "--girth-trials", "100"],
        ),
        (
            Config {
                nrows: 30,
                ncols: 60,
                fill_policy: FillPolicy::Uniform,
                min_girth: Some(6),
                girth_trials: 20,
                backtrack_cols: 3,
                backtrack_trials: 5,
                ..base.clone()
            },
            vec![
                "--uniform",
                "--min-girth",
                "6",
                "--girth-trials",
                "20",
                "--backtrack-cols",
                "3",
                "--backtrack-trials",
                "5",
            ],
        ),
        // impossible: the column weight is larger than the number of rows
        (
            Config {
                nrows: 2,
                ncols: 2,
                wr: 1,
                wc: 5,
                ..base.clone()
            },
            vec![],
        ),
    ];
    cases.push((
        Config {
            nrows: 4,
            ncols: 16,
            wr: 12,
            wc: 3,
            fill_policy: FillPolicy::Uniform,
            min_girth: Some(6),
            girth_trials: 10,
            ..base.clone()
        },
        vec!["--uniform", "--min-girth", "6", "--girth-trials", "10"],
    ));
    for (conf, flags) in &cases {
        for seed in [0u64, 1, 17] {
            let mut args = vec![
                "mackay-neal".to_string(),
                conf.nrows.to_string(),
                conf.ncols.to_string(),
                conf.wr.to_string(),
                conf.wc.to_string(),
                seed.to_string(),
            ];
            args.extend(flags.iter().map(|s| s.to_string()));
            match conf.run(seed) {
                Ok(h) => expect_output(&args, &format!("{}\n", h.alist()), ""),
                Err(_) => expect_failure(&args),
            }

            // the same in search mode: the seed that is reported is the seed of
            // the matrix that is printed
            args.push("--search".to_string());
            args.push("--seed-trials".to_string());
            args.push("20".to_string());
            let what = describe(&args);
            match conf.search(seed, 20) {
                Some(_) => {
                    let outcome = run(&args);
                    assert_eq!(outcome.status, Some(0), "{what}: exit status");
                    let found = outcome
                        .stderr
                        .strip_prefix("seed = ")
                        .and_then(|s| s.strip_suffix('\n'))
                        .and_then(|s| s.parse::<u64>().ok())
                        .unwrap_or_else(|| panic!("{what}: bad seed line {:?}", outcome.stderr));
                    assert!((seed..seed + 20).contains(&found), "{what}: seed {found}");
                    let h = conf.run(found).expect("the seed that was found fails");
                    assert!(outcome.stdout == format!("{}\n", h.alist()), "{what}: alist");
                }
                None => expect_failure(&args),
            }
        }
    }
    expect_failure(&["mackay-neal", "6", "12", "6", "3"]);
    expect_failure(&["mackay-neal", "6", "12", "6", "3", "zero"]);
}

#[test]
fn systematic() {
    let dir = TempDir::new("systematic");
    let mut matrices = vec![
        ldpc_toolbox::peg::Config {
            nrows: 6,
            ncols: 12,
            wc: 3,
        }
        .run(0)
        .unwrap(),
        ldpc_toolbox::peg::Config {
            nrows: 50,
            ncols: 100,
            wc: 3,
        }
        .run(1)
        .unwrap(),
        AR4JACode::new(AR4JARate::R4_5, AR4JAInfoSize::K1024).h(),
    ];
    // a matrix in which the columns must be permuted, with an irregular alist
    let mut h = SparseMatrix::new(3, 7);
    h.insert_row(0, [0, 1, 2].iter());
    h.insert_row(1, [1, 3].iter());
    h.insert_row(2, [0, 3, 4].iter());
    matrices.push(h);
    // the identity
    let mut h = SparseMatrix::new(4, 4);
    for j in 0..4 {
        h.insert(j, j);
    }
    matrices.push(h);
    // rank deficient
    let mut h = SparseMatrix::new(2, 4);
    h.insert_row(0, [0, 1].iter());
    h.insert_row(1, [0, 1].iter());
    matrices.push(h);

    for (j, h) in matrices.iter().enumerate() {
        for (variant, alist) in [("padded", h.alist()), ("plain", h.alist_no_padding())] {
            let path = dir.file(&format!("matrix-{j}-{variant}.alist"), &alist);
            let args = [std::ffi::OsString::from("systematic"), path.into()];
            match parity_to_systematic(h) {
                Ok(h_sys) => expect_output(&args, &format!("{}\n", h_sys.alist()), ""),
                Err(_) => expect_failure(&args),
            }
        }
    }

    expect_failure(&[
        std::ffi::OsString::from("systematic"),
        dir.0.join("does-not-exist").into(),
    ]);
    expect_failure(&[std::ffi::OsString::from("systematic"), dir.0.clone().into()]);
    for (name, text) in [
        ("empty", ""),
        ("garbage", "this is not an alist\n"),
        ("short", "4 2\n1 2\n1 1 0 0\n2 0\n1\n1\n"),
        ("range", "2 1\n1 2\n1 1\n2\n1\n7\n1 2\n"),
        ("letters", "2 1\n1 2\n1 1\n2\n1\nx\n1 2\n"),
    ] {
        let path = dir.file(name, text);
        expect_failure(&[std::ffi::OsString::from("systematic"), path.into()]);
    }
    expect_failure(&["systematic"]);
}

#[test]
fn top_level() {
    expect_failure(&["no-such-subcommand"]);
    let outcome = run(&["--version"]);
    assert_eq!(outcome.status, Some(0));
    assert!(outcome.stdout.starts_with("ldpc-toolbox "));
}
