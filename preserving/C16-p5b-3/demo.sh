#!/bin/sh
# Demonstration for the rewrite of the `peg` and `mackay-neal` command line
# wrappers (staged seed search, streamed alist output).
#
# usage: demo.sh <checkout>   (binary at <checkout>/target/debug/ldpc-toolbox)
# exit 0 = the property holds as seen through the command line.

BIN="$1/target/debug/ldpc-toolbox"
[ -x "$BIN" ] || { echo "no binary at $BIN" >&2; exit 2; }
TMP=$(mktemp -d) || exit 2
trap 'rm -rf "$TMP"' EXIT INT TERM
RUST_BACKTRACE=0
export RUST_BACKTRACE

fail() {
    echo "FAIL: $*" >&2
    exit 1
}

# run <stdout file> <stderr file> args... ; leaves the exit code in RC
run() {
    _o="$1"
    _e="$2"
    shift 2
    if command -v timeout >/dev/null 2>&1; then
        timeout 300 "$BIN" "$@" >"$_o" 2>"$_e"
    else
        "$BIN" "$@" >"$_o" 2>"$_e"
    fi
    RC=$?
    [ "$RC" -eq 124 ] && fail "timeout: $*"
    return 0
}

# check_alist <file> <nrows> <ncols> <column weight> <max row weight> <uniform 0/1> <no 4-cycles 0/1>
# The file must be an alist followed by one empty line.
check_alist() {
    awk -v nrows="$2" -v ncols="$3" -v wc="$4" -v wr="$5" -v uniform="$6" -v no4="$7" '
    function bad(msg) { print "alist: " msg > "/dev/stderr"; failed = 1; exit 1 }
    NR == 1 { if ($1 != ncols || $2 != nrows || NF != 2) bad("size line: " $0); next }
    NR == 2 { maxc = $1; maxr = $2; next }
    NR == 3 {
        if (NF != ncols) bad("column weights: " NF " fields")
        for (i = 1; i <= NF; i++) { cw[i] = $i; if ($i != wc) bad("column " i " has weight " $i) }
        next
    }
    NR == 4 {
        if (NF != nrows) bad("row weights: " NF " fields")
        lo = -1; hi = 0
        for (i = 1; i <= NF; i++) {
            rw[i] = $i
            if ($i > wr) bad("row " i " has weight " $i)
            if (lo < 0 || $i < lo) lo = $i
            if ($i > hi) hi = $i
        }
        if (uniform && nrows > 0 && hi - lo > 1) bad("row weights are not uniform")
        next
    }
    NR >= 5 && NR < 5 + ncols {
        c = NR - 4; n = 0
        for (i = 1; i <= NF; i++) if ($i != 0) {
            if ($i < 1 || $i > nrows) bad("row index " $i)
            if (($i, c) in one) bad("repeated entry")
            one[$i, c] = 1; incol[c, ++n] = $i; rcount[$i]++
        }
        if (n != cw[c]) bad("column " c " lists " n " entries")
        next
    }
    NR >= 5 + ncols && NR < 5 + ncols + nrows {
        r = NR - 4 - ncols; n = 0
        for (i = 1; i <= NF; i++) if ($i != 0) {
            if (!((r, $i) in one)) bad("row list and column list disagree")
            n++
        }
        if (n != rw[r] || n != rcount[r] + 0) bad("row " r " lists " n " entries")
        next
    }
    NR == 5 + ncols + nrows { if ($0 != "") bad("expected an empty line at the end"); next }
    { bad("trailing data") }
    END {
        if (failed) exit 1
        if (NR != 5 + ncols + nrows) { print "alist: " NR " lines" > "/dev/stderr"; exit 1 }
        if (no4) {
            for (a = 1; a <= ncols; a++) for (b = a + 1; b <= ncols; b++) {
                shared = 0
                for (i = 1; i <= cw[a]; i++) if ((incol[a, i], b) in one) shared++
                if (shared > 1) { print "alist: 4-cycle in columns " a " " b > "/dev/stderr"; exit 1 }
            }
        }
    }' "$1" || fail "bad alist in $1"
}

# ---------------------------------------------------------------- peg
run "$TMP/p1.out" "$TMP/p1.err" peg 30 60 3 5
[ "$RC" -eq 0 ] || fail "peg exit code $RC"
[ -s "$TMP/p1.err" ] && fail "peg wrote to stderr without --girth"
check_alist "$TMP/p1.out" 30 60 3 60 0 0
run "$TMP/p2.out" "$TMP/p2.err" peg 30 60 3 5 --girth
[ "$RC" -eq 0 ] || fail "peg --girth exit code $RC"
cmp -s "$TMP/p1.out" "$TMP/p2.out" || fail "peg: same seed, different output"
[ "$(wc -l <"$TMP/p2.err")" -eq 1 ] || fail "peg --girth: expected one line on stderr"
grep -q '^Code girth = [0-9][0-9]*$' "$TMP/p2.err" || fail "peg --girth: $(cat "$TMP/p2.err")"
run "$TMP/p3.out" "$TMP/p3.err" peg 30 60 3 6
cmp -s "$TMP/p1.out" "$TMP/p3.out" && fail "peg: different seeds, same output"
# a forest has no cycles
run "$TMP/p4.out" "$TMP/p4.err" peg 8 5 1 0 --girth
[ "$RC" -eq 0 ] || fail "peg forest exit code $RC"
check_alist "$TMP/p4.out" 8 5 1 5 0 0
grep -q '^Code girth = infinity (there are no cycles)$' "$TMP/p4.err" || fail "peg forest girth"
# column weight is min(wc, rows)
run "$TMP/p5.out" "$TMP/p5.err" peg 3 7 5 1
[ "$RC" -eq 0 ] || fail "peg 3 7 5 exit code $RC"
check_alist "$TMP/p5.out" 3 7 3 7 0 0
# nothing to build: an empty alist and the empty line
run "$TMP/p6.out" "$TMP/p6.err" peg 4 0 2 1
[ "$RC" -eq 0 ] || fail "peg 4 0 2 exit code $RC"
check_alist "$TMP/p6.out" 4 0 2 0 0 0
# impossible
run "$TMP/p7.out" "$TMP/p7.err" peg 0 3 2 0
[ "$RC" -ne 0 ] || fail "peg with no rows succeeded"
[ -s "$TMP/p7.out" ] && fail "peg with no rows printed something"
grep -q 'rows' "$TMP/p7.err" || fail "peg with no rows: no explanation"

# ------------------------------------------------- mackay-neal, one seed
run "$TMP/m1.out" "$TMP/m1.err" mackay-neal 20 40 6 3 11 --uniform
[ "$RC" -eq 0 ] || fail "mackay-neal exit code $RC"
[ -s "$TMP/m1.err" ] && fail "mackay-neal wrote to stderr without --search"
check_alist "$TMP/m1.out" 20 40 3 6 1 0
run "$TMP/m2.out" "$TMP/m2.err" mackay-neal 20 40 6 3 11 --uniform
cmp -s "$TMP/m1.out" "$TMP/m2.out" || fail "mackay-neal: same seed, different output"
run "$TMP/m3.out" "$TMP/m3.err" mackay-neal 20 40 6 3 12 --uniform
cmp -s "$TMP/m1.out" "$TMP/m3.out" && fail "mackay-neal: different seeds, same output"

# which of the seeds 0..39 work for a configuration that is exactly tight
# under the random policy (many seeds fail)
GOOD=""
FIRST_GOOD=""
s=0
while [ "$s" -lt 40 ]; do
    run "$TMP/t.out" "$TMP/t.err" mackay-neal 4 8 4 2 "$s"
    if [ "$RC" -eq 0 ]; then
        check_alist "$TMP/t.out" 4 8 2 4 0 0
        cp "$TMP/t.out" "$TMP/tight.$s"
        GOOD="$GOOD $s"
        [ -z "$FIRST_GOOD" ] && FIRST_GOOD=$s
    else
        [ -s "$TMP/t.out" ] && fail "failed run printed a matrix"
        [ -s "$TMP/t.err" ] || fail "failed run gave no explanation"
    fi
    s=$((s + 1))
done
[ -n "$FIRST_GOOD" ] || fail "no seed in 0..39 works for the tight configuration"
is_good() {
    for _g in $GOOD; do [ "$_g" -eq "$1" ] && return 0; done
    return 1
}

# search_tight <start> <trials>: the answer must be a working seed in range
# with the matrix of that seed, or "no solution" exactly when none works
search_tight() {
    run "$TMP/s.out" "$TMP/s.err" mackay-neal 4 8 4 2 "$1" --search --seed-trials "$2"
    any=""
    k=$1
    while [ "$k" -lt $(($1 + $2)) ]; do
        is_good "$k" && any=1
        k=$((k + 1))
    done
    if [ -n "$any" ]; then
        [ "$RC" -eq 0 ] || fail "search $1+$2 failed although a seed works: $(cat "$TMP/s.err")"
        [ "$(wc -l <"$TMP/s.err")" -eq 1 ] || fail "search: expected one line on stderr"
        found=$(sed -n 's/^seed = \([0-9][0-9]*\)$/\1/p' "$TMP/s.err")
        [ -n "$found" ] || fail "search: no seed line: $(cat "$TMP/s.err")"
        [ "$found" -ge "$1" ] && [ "$found" -lt $(($1 + $2)) ] || fail "seed $found outside $1+$2"
        is_good "$found" || fail "search reported seed $found, which does not work"
        cmp -s "$TMP/s.out" "$TMP/tight.$found" || fail "search $1+$2: matrix is not that of seed $found"
    else
        [ "$RC" -ne 0 ] || fail "search $1+$2 succeeded although no seed works"
        [ -s "$TMP/s.out" ] && fail "failed search printed a matrix"
        grep -q 'no solution found' "$TMP/s.err" || fail "failed search: $(cat "$TMP/s.err")"
        grep -q '^seed' "$TMP/s.err" && fail "failed search reported a seed"
    fi
    return 0
}

# every start with several lengths (lengths around the stage boundaries too);
# this covers ranges whose only working seed is the first, the last or a
# middle one, and ranges without any working seed
start=0
while [ "$start" -lt 30 ]; do
    for len in 0 1 2 3 4 5 6 7 10; do
        search_tight "$start" "$len"
    done
    start=$((start + 1))
done
for len in 11 12 13 27 28 29 40; do
    search_tight 0 "$len"
done
# the same search many times (different schedules of the thread pool)
n=0
while [ "$n" -lt 25 ]; do
    search_tight 0 40
    search_tight "$FIRST_GOOD" 1
    n=$((n + 1))
done

# default number of trials, uniform policy and girth constraint together
n=0
while [ "$n" -lt 3 ]; do
    run "$TMP/g.out" "$TMP/g.err" mackay-neal 30 60 6 3 $((1000 * n)) --uniform \
        --min-girth 6 --girth-trials 200 --backtrack-cols 2 --backtrack-trials 5 --search
    [ "$RC" -eq 0 ] || fail "girth search failed: $(cat "$TMP/g.err")"
    found=$(sed -n 's/^seed = \([0-9][0-9]*\)$/\1/p' "$TMP/g.err")
    [ -n "$found" ] || fail "girth search: no seed line"
    [ "$found" -ge $((1000 * n)) ] && [ "$found" -lt $((1000 * n + 1000)) ] || fail "girth search: seed $found out of range"
    check_alist "$TMP/g.out" 30 60 3 6 0 1
    run "$TMP/g2.out" "$TMP/g2.err" mackay-neal 30 60 6 3 "$found" --uniform \
        --min-girth 6 --girth-trials 200 --backtrack-cols 2 --backtrack-trials 5
    [ "$RC" -eq 0 ] || fail "seed $found found by the search fails on its own"
    cmp -s "$TMP/g.out" "$TMP/g2.out" || fail "girth search: matrix is not that of seed $found"
    n=$((n + 1))
done

# a configuration that cannot be built (6 rows allow at most 5 columns of
# weight 3 without 4-cycles): every seed fails, so the search finds nothing
run "$TMP/i.out" "$TMP/i.err" mackay-neal 6 12 6 3 0 --min-girth 6 --girth-trials 3 --search --seed-trials 37
[ "$RC" -ne 0 ] || fail "impossible search succeeded"
[ -s "$TMP/i.out" ] && fail "impossible search printed a matrix"
grep -q 'no solution found' "$TMP/i.err" || fail "impossible search: $(cat "$TMP/i.err")"

# seeds at the top of the u64 range
run "$TMP/h.out" "$TMP/h.err" mackay-neal 20 40 6 3 18446744073709551610 --uniform --search --seed-trials 5
[ "$RC" -eq 0 ] || fail "search near the top of the range failed: $(cat "$TMP/h.err")"
found=$(sed -n 's/^seed = \([0-9][0-9]*\)$/\1/p' "$TMP/h.err")
case "$found" in
18446744073709551610 | 18446744073709551611 | 18446744073709551612 | 18446744073709551613 | 18446744073709551614) ;;
*) fail "seed '$found' outside the top range" ;;
esac
run "$TMP/h2.out" "$TMP/h2.err" mackay-neal 20 40 6 3 "$found" --uniform
cmp -s "$TMP/h.out" "$TMP/h2.out" || fail "top range: matrix is not that of seed $found"
# a range that does not fit in u64 is not a valid request: no matrix
run "$TMP/v.out" "$TMP/v.err" mackay-neal 20 40 6 3 18446744073709551615 --uniform --search --seed-trials 5
[ -s "$TMP/v.out" ] && fail "overflowing range printed a matrix"
[ "$RC" -ne 0 ] || fail "overflowing range succeeded"

# an output that cannot be written is an error
if [ -c /dev/full ] && [ -w /dev/full ]; then
    "$BIN" peg 30 60 3 5 >/dev/full 2>"$TMP/f.err" && fail "peg: writing to /dev/full succeeded"
    "$BIN" mackay-neal 20 40 6 3 11 --uniform >/dev/full 2>"$TMP/f.err" && fail "mackay-neal: writing to /dev/full succeeded"
fi

echo "demo: all checks passed"
exit 0
