// Demonstration for property C13: "BER statistics are exact and the run
// terminates under every thread schedule".
//
// The BER engine is driven through its public API with a *scripted* decoder
// (a user supplied `DecoderFactory`). The decoder recovers the transmitted
// codeword by hard decision (the Eb/N0 is so high that the channel is
// noiseless for all practical purposes) and then damages it according to a
// script, so that every simulated frame is of one of four known kinds with
// fixed (bit errors, iterations, convergence) signatures. The signatures are
// chosen so that the number of frames of each kind can be recovered from the
// published statistics; any statistics that are not the exact sum of a set of
// whole frames violate one of the linear relations that are checked. Random
// delays inside the decoder perturb the arrival order of the worker results.
//
// Failure-injecting configurations (puncturer error, interleaver / modulator
// panics in every worker, decoder panics in some / all workers) must produce
// an `Err` (never a hang, never a panic out of `run`), with `Report::Finished`
// delivered exactly once and last, and all the workers joined (checked through
// the number of live decoders, which are owned by the workers).
//
// The test re-executes itself under `taskset` (when available) to cover
// several worker counts, since the engine takes its number of workers from the
// CPU affinity mask.

use ldpc_toolbox::decoder::factory::DecoderFactory;
use ldpc_toolbox::decoder::{DecoderOutput, LdpcDecoder};
use ldpc_toolbox::simulation::ber::{BerTest, Report, Reporter, Statistics};
use ldpc_toolbox::simulation::modulation::{Bpsk, Modulation, Psk8};
use ldpc_toolbox::sparse::SparseMatrix;
use std::sync::atomic::{AtomicI64, AtomicU64, AtomicUsize, Ordering};
use std::sync::mpsc;
use std::sync::Arc;
use std::time::Duration;

const MAX_ITER: usize = 7;
const BCH_T: u64 = 3;
const SCENARIO_TIMEOUT: Duration = Duration::from_secs(180);

// Kinds of frames produced by the scripted decoder.
//
//  kind | bit errors | iterations | converged | LDPC  | BCH (t = 3)
//  -----|------------|------------|-----------|-------|------------
//   A   |     0      |     3      |    yes    | ok    | ok
//   B   |     5      |     7      |    no     | error | error
//   C   |     2      |     4      |    yes    | error (false decode) | ok
//   D   |     1      |     7      |    no     | error | ok
#[derive(Debug, Clone, Copy, PartialEq, Eq)]
enum Kind {
    A,
    B,
    C,
    D,
}

impl Kind {
    fn bit_errors(self) -> usize {
        match self {
            Kind::A => 0,
            Kind::B => 5,
            Kind::C => 2,
            Kind::D => 1,
        }
    }
    fn iterations(self) -> usize {
        match self {
            Kind::A => 3,
            Kind::B => MAX_ITER,
            Kind::C => 4,
            Kind::D => MAX_ITER,
        }
    }
    fn converged(self) -> bool {
        matches!(self, Kind::A | Kind::C)
    }
}

const MIXED: &[Kind] = &[
    Kind::A,
    Kind::A,
    Kind::C,
    Kind::A,
    Kind::B,
    Kind::D,
    Kind::A,
    Kind::A,
    Kind::B,
    Kind::A,
    Kind::C,
    Kind::A,
    Kind::D,
    Kind::B,
    Kind::A,
    Kind::A,
    Kind::A,
];
const ALL_B: &[Kind] = &[Kind::B];
const RARE_B: &[Kind] = &[
    Kind::A,
    Kind::D,
    Kind::A,
    Kind::C,
    Kind::A,
    Kind::A,
    Kind::D,
    Kind::A,
    Kind::A,
    Kind::C,
    Kind::B,
];

#[derive(Debug, Clone, Copy, PartialEq, Eq)]
enum Fault {
    None,
    // Decoders with an even index panic in their third frame. To make the
    // outcome independent of how the threads are scheduled, only correct
    // frames are produced until some decoder has panicked, so that the point
    // cannot be completed before that.
    PanicEvenDecoders,
    // Every decoder panics in its first frame.
    PanicAllDecoders,
    // Every decode call panics once this many frames have been decoded in
    // total (over all the workers and Eb/N0 points).
    PanicAfterTotal(u64),
}

struct Shared {
    k: usize,
    pattern: &'static [Kind],
    fault: Fault,
    max_delay_us: u64,
    next_index: AtomicUsize,
    live: AtomicI64,
    decoded: [AtomicU64; 4],
    total_decoded: AtomicU64,
    built: AtomicUsize,
    panics: AtomicU64,
}

#[derive(Clone)]
struct Script(Arc<Shared>);

impl std::fmt::Display for Script {
    fn fmt(&self, f: &mut std::fmt::Formatter<'_>) -> std::fmt::Result {
        write!(f, "scripted")
    }
}

impl DecoderFactory for Script {
    fn build_decoder(&self, h: SparseMatrix) -> Box<dyn LdpcDecoder> {
        assert_eq!(h.num_cols() - h.num_rows(), self.0.k);
        let index = self.0.next_index.fetch_add(1, Ordering::SeqCst);
        self.0.built.fetch_add(1, Ordering::SeqCst);
        self.0.live.fetch_add(1, Ordering::SeqCst);
        Box::new(Scripted {
            shared: Arc::clone(&self.0),
            index,
            seq: 0,
            lcg: 0x9E37_79B9_7F4A_7C15u64.wrapping_mul(index as u64 + 1) | 1,
        })
    }
}

struct Scripted {
    shared: Arc<Shared>,
    index: usize,
    seq: usize,
    lcg: u64,
}

impl std::fmt::Debug for Scripted {
    fn fmt(&self, f: &mut std::fmt::Formatter<'_>) -> std::fmt::Result {
        write!(f, "Scripted({})", self.index)
    }
}

impl Drop for Scripted {
    fn drop(&mut self) {
        self.shared.live.fetch_sub(1, Ordering::SeqCst);
    }
}

impl LdpcDecoder for Scripted {
    fn decode(
        &mut self,
        llrs: &[f64],
        max_iterations: usize,
    ) -> Result<DecoderOutput, DecoderOutput> {
        assert_eq!(max_iterations, MAX_ITER);
        // Random delay to perturb the arrival order of results.
        self.lcg = self
            .lcg
            .wrapping_mul(6364136223846793005)
            .wrapping_add(1442695040888963407);
        if self.shared.max_delay_us > 0 {
            // Workers have different speeds; some frames are not delayed.
            let r = (self.lcg >> 33) % (self.shared.max_delay_us + 1);
            let r = r * (1 + (self.index as u64 % 3));
            if (self.lcg >> 20) % 4 != 0 {
                std::thread::sleep(Duration::from_micros(r));
            } else {
                std::thread::yield_now();
            }
        }
        match self.shared.fault {
            Fault::None => (),
            Fault::PanicEvenDecoders => {
                if self.index % 2 == 0 && self.seq == 2 {
                    self.shared.panics.fetch_add(1, Ordering::SeqCst);
                    panic!("scripted decoder panic (even decoder, third frame)");
                }
            }
            Fault::PanicAllDecoders => panic!("scripted decoder panic (all decoders)"),
            Fault::PanicAfterTotal(n) => {
                if self.shared.total_decoded.load(Ordering::SeqCst) >= n {
                    panic!("scripted decoder panic (late total failure)");
                }
            }
        }
        let mut kind =
            self.shared.pattern[(self.seq + 2 * self.index) % self.shared.pattern.len()];
        if self.shared.fault == Fault::PanicEvenDecoders
            && self.shared.panics.load(Ordering::SeqCst) == 0
        {
            kind = Kind::A;
        }
        self.seq += 1;
        // Hard decision. BPSK/8PSK demodulators give a negative LLR for a bit 1.
        let mut codeword = llrs.iter().map(|&l| u8::from(l < 0.0)).collect::<Vec<u8>>();
        assert!(kind.bit_errors() <= self.shared.k);
        // Damage systematic bits, spread over the systematic part.
        for j in 0..kind.bit_errors() {
            let pos = (j + self.seq) % self.shared.k;
            // positions must be distinct: consecutive positions mod k are
            // distinct because bit_errors <= k.
            codeword[pos] ^= 1;
        }
        // Also damage a parity bit in every frame: it must not be counted.
        let last = codeword.len() - 1;
        codeword[last] ^= 1;
        self.shared.decoded[kind as usize].fetch_add(1, Ordering::SeqCst);
        self.shared.total_decoded.fetch_add(1, Ordering::SeqCst);
        let output = DecoderOutput {
            codeword,
            iterations: kind.iterations(),
        };
        if kind.converged() {
            Ok(output)
        } else {
            Err(output)
        }
    }
}

// Staircase parity check matrix with k information bits and 2k columns.
fn parity_check(k: usize) -> SparseMatrix {
    let mut h = SparseMatrix::new(k, 2 * k);
    for j in 0..k {
        h.insert(j, j);
        h.insert(j, (j + 1) % k);
        h.insert(j, k + j);
        if j > 0 {
            h.insert(j, k + j - 1);
        }
    }
    h
}

fn same(x: f64, y: f64) -> bool {
    (x.is_nan() && y.is_nan()) || x == y
}

// Checks that the statistics are exactly those of a set of whole frames of
// the known kinds. Returns the number of frames of each kind.
fn check_whole_frames(s: &Statistics, k: usize, bch: bool, what: &str) -> [u64; 4] {
    let ctx = format!("{what}: {s:?}");
    let nf = s.num_frames;
    let fe = s.ldpc.frame_errors;
    let be = s.ldpc.bit_errors;
    assert!(fe <= nf, "{ctx}");
    let c = s.false_decodes;
    assert!(c <= fe, "{ctx}");
    let a = nf - fe;
    // b + d = fe - c ; 5 b + d = be - 2 c
    assert!(be >= 2 * c + (fe - c), "{ctx}");
    let four_b = be - 2 * c - (fe - c);
    assert_eq!(four_b % 4, 0, "{ctx}");
    let b = four_b / 4;
    assert!(b <= fe - c, "{ctx}");
    let d = fe - c - b;
    assert_eq!(s.total_iterations, 3 * a + 7 * b + 4 * c + 7 * d, "{ctx}");
    assert_eq!(s.ldpc.correct_iterations, 3 * a, "{ctx}");
    // ratios
    let kf = k as f64;
    assert!(
        same(s.average_iterations, s.total_iterations as f64 / nf as f64),
        "{ctx}"
    );
    assert!(same(s.ldpc.ber, be as f64 / (kf * nf as f64)), "{ctx}");
    assert!(same(s.ldpc.fer, fe as f64 / nf as f64), "{ctx}");
    assert!(
        same(
            s.ldpc.average_iterations_correct,
            (3 * a) as f64 / (nf - fe) as f64
        ),
        "{ctx}"
    );
    assert_eq!(s.bch.is_some(), bch, "{ctx}");
    if let Some(o) = &s.bch {
        assert_eq!(o.frame_errors, b, "{ctx}");
        assert_eq!(o.bit_errors, 5 * b, "{ctx}");
        assert_eq!(o.correct_iterations, 3 * a + 4 * c + 7 * d, "{ctx}");
        assert!(same(o.ber, (5 * b) as f64 / (kf * nf as f64)), "{ctx}");
        assert!(same(o.fer, b as f64 / nf as f64), "{ctx}");
        assert!(
            same(
                o.average_iterations_correct,
                (3 * a + 4 * c + 7 * d) as f64 / (nf - b) as f64
            ),
            "{ctx}"
        );
    }
    [a, b, c, d]
}

fn errors_for_termination(s: &Statistics) -> u64 {
    match &s.bch {
        Some(o) => o.frame_errors,
        None => s.ldpc.frame_errors,
    }
}

#[derive(Debug, Clone)]
struct Scenario {
    name: &'static str,
    psk8: bool,
    k: usize,
    puncturing: Option<Vec<bool>>,
    interleaving: Option<isize>,
    max_frame_errors: u64,
    ebn0s: Vec<f32>,
    bch: bool,
    pattern: &'static [Kind],
    fault: Fault,
    max_delay_us: u64,
    // None: no reporter
    report_interval: Option<Duration>,
    expect_ok: bool,
}

impl Scenario {
    fn base(name: &'static str) -> Scenario {
        Scenario {
            name,
            psk8: false,
            k: 6,
            puncturing: None,
            interleaving: None,
            max_frame_errors: 25,
            ebn0s: vec![30.0],
            bch: false,
            pattern: MIXED,
            fault: Fault::None,
            max_delay_us: 120,
            report_interval: Some(Duration::ZERO),
            expect_ok: true,
        }
    }
}

struct Outcome {
    result: Result<Vec<Statistics>, String>,
    reports: Vec<Report>,
    live_after: i64,
    decoded: [u64; 4],
    built: usize,
}

fn execute<Mod: Modulation>(sc: &Scenario) -> Outcome {
    let shared = Arc::new(Shared {
        k: sc.k,
        pattern: sc.pattern,
        fault: sc.fault,
        max_delay_us: sc.max_delay_us,
        next_index: AtomicUsize::new(0),
        live: AtomicI64::new(0),
        decoded: [
            AtomicU64::new(0),
            AtomicU64::new(0),
            AtomicU64::new(0),
            AtomicU64::new(0),
        ],
        total_decoded: AtomicU64::new(0),
        built: AtomicUsize::new(0),
        panics: AtomicU64::new(0),
    });
    let (tx, rx) = mpsc::channel();
    let reporter = sc.report_interval.map(|interval| Reporter { tx, interval });
    let test = BerTest::<Mod, Script>::new(
        parity_check(sc.k),
        Script(Arc::clone(&shared)),
        sc.puncturing.as_deref(),
        sc.interleaving,
        sc.max_frame_errors,
        MAX_ITER,
        &sc.ebn0s,
        reporter,
        if sc.bch { BCH_T } else { 0 },
    )
    .expect("BerTest::new");
    let result = test.run().map_err(|e| e.to_string());
    // Everything must already be in the channel when run() returns.
    let live_after = shared.live.load(Ordering::SeqCst);
    let reports = rx.try_iter().collect::<Vec<_>>();
    let decoded = [
        shared.decoded[0].load(Ordering::SeqCst),
        shared.decoded[1].load(Ordering::SeqCst),
        shared.decoded[2].load(Ordering::SeqCst),
        shared.decoded[3].load(Ordering::SeqCst),
    ];
    Outcome {
        result,
        reports,
        live_after,
        decoded,
        built: shared.built.load(Ordering::SeqCst),
    }
}

fn run_with_timeout(sc: &Scenario) -> Outcome {
    let (done_tx, done_rx) = mpsc::channel();
    let sc2 = sc.clone();
    let handle = std::thread::Builder::new()
        .name(format!("scenario-{}", sc.name))
        .spawn(move || {
            let outcome = if sc2.psk8 {
                execute::<Psk8>(&sc2)
            } else {
                execute::<Bpsk>(&sc2)
            };
            let _ = done_tx.send(outcome);
        })
        .unwrap();
    match done_rx.recv_timeout(SCENARIO_TIMEOUT) {
        Ok(outcome) => {
            handle.join().unwrap();
            outcome
        }
        Err(mpsc::RecvTimeoutError::Timeout) => {
            panic!("scenario {}: run() did not return (hang)", sc.name)
        }
        Err(mpsc::RecvTimeoutError::Disconnected) => {
            // The scenario thread died without sending: run() panicked.
            let _ = handle.join();
            panic!("scenario {}: run() panicked instead of returning", sc.name)
        }
    }
}

fn check(sc: &Scenario) {
    let out = run_with_timeout(sc);
    let name = sc.name;
    if std::env::var_os("SEEDED_DEMO_VERBOSE").is_some() {
        eprintln!(
            "{name}: decoders built {}, frames decoded {:?}, reports {}, result {:?}",
            out.built,
            out.decoded,
            out.reports.len(),
            out.result.as_ref().map(|s| s.iter().map(|p| p.num_frames).collect::<Vec<_>>())
        );
    }

    // All the workers have been joined: the decoders they own are gone.
    assert_eq!(out.live_after, 0, "{name}: live decoders after run()");

    // Reports: Finished exactly once, and last.
    let mut stats_reports: Vec<&Statistics> = Vec::new();
    if sc.report_interval.is_some() {
        assert!(!out.reports.is_empty(), "{name}: no reports at all");
        let finished = out
            .reports
            .iter()
            .filter(|r| matches!(r, Report::Finished))
            .count();
        assert_eq!(finished, 1, "{name}: number of Finished reports");
        assert_eq!(
            out.reports.last(),
            Some(&Report::Finished),
            "{name}: Finished is not last"
        );
        for r in &out.reports {
            if let Report::Statistics(s) = r {
                stats_reports.push(s);
            }
        }
    } else {
        assert!(out.reports.is_empty());
    }

    // Every statistics report consists of whole frames, respects the stopping
    // rule, and the reports of a point are monotone; points come in order.
    let mut point = 0usize;
    let mut previous: Option<&Statistics> = None;
    let mut last_of_point: Vec<&Statistics> = Vec::new();
    for s in &stats_reports {
        let kinds = check_whole_frames(s, sc.k, sc.bch, name);
        for (n, total) in kinds.iter().zip(out.decoded.iter()) {
            assert!(n <= total, "{name}: more frames counted than decoded");
        }
        assert!(
            errors_for_termination(s) <= sc.max_frame_errors,
            "{name}: overshoot of the stopping rule: {s:?}"
        );
        if let Some(p) = previous {
            if p.ebn0_db != s.ebn0_db {
                last_of_point.push(p);
                point += 1;
            } else {
                assert!(s.num_frames >= p.num_frames, "{name}: frames went backwards");
                assert!(s.total_iterations >= p.total_iterations, "{name}");
                assert!(s.ldpc.bit_errors >= p.ldpc.bit_errors, "{name}");
                assert!(s.ldpc.frame_errors >= p.ldpc.frame_errors, "{name}");
                assert!(s.false_decodes >= p.false_decodes, "{name}");
            }
        }
        assert!(point < sc.ebn0s.len(), "{name}: too many points reported");
        assert_eq!(s.ebn0_db, sc.ebn0s[point], "{name}: points out of order");
        previous = Some(s);
    }
    if let Some(p) = previous {
        last_of_point.push(p);
    }

    match (&out.result, sc.expect_ok) {
        (Ok(stats), true) => {
            assert_eq!(stats.len(), sc.ebn0s.len(), "{name}");
            let mut sum = [0u64; 4];
            for (s, &ebn0) in stats.iter().zip(sc.ebn0s.iter()) {
                assert_eq!(s.ebn0_db, ebn0, "{name}");
                let kinds = check_whole_frames(s, sc.k, sc.bch, name);
                for (t, n) in sum.iter_mut().zip(kinds.iter()) {
                    *t += n;
                }
                // Stops exactly when the required number of frame errors has
                // been collected (each frame adds at most one).
                assert_eq!(
                    errors_for_termination(s),
                    sc.max_frame_errors,
                    "{name}: stopping rule: {s:?}"
                );
                if sc.pattern == ALL_B {
                    assert_eq!(s.num_frames, sc.max_frame_errors, "{name}");
                }
            }
            for (n, total) in sum.iter().zip(out.decoded.iter()) {
                assert!(n <= total, "{name}: more frames counted than decoded");
            }
            if sc.report_interval.is_some() {
                // The last statistics report of every point is the final one,
                // and agrees with the returned statistics.
                assert_eq!(last_of_point.len(), stats.len(), "{name}");
                for (r, s) in last_of_point.iter().zip(stats.iter()) {
                    assert_eq!(r.ebn0_db, s.ebn0_db, "{name}");
                    assert_eq!(r.num_frames, s.num_frames, "{name}");
                    assert_eq!(r.total_iterations, s.total_iterations, "{name}");
                    assert_eq!(r.false_decodes, s.false_decodes, "{name}");
                    assert_eq!(r.ldpc.bit_errors, s.ldpc.bit_errors, "{name}");
                    assert_eq!(r.ldpc.frame_errors, s.ldpc.frame_errors, "{name}");
                    assert_eq!(
                        r.ldpc.correct_iterations, s.ldpc.correct_iterations,
                        "{name}"
                    );
                    assert_eq!(
                        r.bch.as_ref().map(|o| (o.bit_errors, o.frame_errors, o.correct_iterations)),
                        s.bch.as_ref().map(|o| (o.bit_errors, o.frame_errors, o.correct_iterations)),
                        "{name}"
                    );
                }
            }
        }
        (Err(_), false) => {
            if sc.fault == Fault::PanicEvenDecoders && out.built >= 2 {
                // There are surviving workers (odd decoders), which complete
                // the point before the failure is reported.
                let last = stats_reports
                    .last()
                    .unwrap_or_else(|| panic!("{name}: no statistics report"));
                assert_eq!(
                    errors_for_termination(last),
                    sc.max_frame_errors,
                    "{name}: surviving workers did not complete the point"
                );
            }
        }
        (Ok(stats), false) => panic!(
            "{name}: run() returned Ok but an error was expected (decoders built {}, frames decoded {:?}): {stats:?}",
            out.built, out.decoded
        ),
        (Err(e), true) => panic!("{name}: run() failed: {e}"),
    }
}

fn scenarios() -> Vec<Scenario> {
    let mut v = Vec::new();
    v.push(Scenario::base("plain"));
    v.push(Scenario {
        bch: true,
        ..Scenario::base("bch")
    });
    v.push(Scenario {
        ebn0s: vec![30.0, 31.0, 32.5, 34.0],
        max_frame_errors: 12,
        ..Scenario::base("multi-point")
    });
    v.push(Scenario {
        ebn0s: vec![30.0, 31.0, 32.5],
        max_frame_errors: 9,
        bch: true,
        pattern: RARE_B,
        ..Scenario::base("multi-point-bch-rare")
    });
    v.push(Scenario {
        pattern: ALL_B,
        max_frame_errors: 40,
        ..Scenario::base("all-errors")
    });
    v.push(Scenario {
        pattern: ALL_B,
        max_frame_errors: 1,
        bch: true,
        ebn0s: vec![30.0, 31.0],
        ..Scenario::base("single-error")
    });
    v.push(Scenario {
        max_frame_errors: 3000,
        max_delay_us: 0,
        report_interval: Some(Duration::from_millis(1)),
        ..Scenario::base("fast-many-frames")
    });
    v.push(Scenario {
        max_frame_errors: 400,
        max_delay_us: 0,
        bch: true,
        ..Scenario::base("fast-bch-all-reports")
    });
    v.push(Scenario {
        max_frame_errors: 30,
        report_interval: None,
        ebn0s: vec![30.0, 33.0],
        ..Scenario::base("no-reporter")
    });
    v.push(Scenario {
        max_frame_errors: 20,
        report_interval: Some(Duration::from_secs(3600)),
        ebn0s: vec![30.0, 33.0],
        ..Scenario::base("final-reports-only")
    });
    v.push(Scenario {
        max_frame_errors: 0,
        ebn0s: vec![30.0, 31.0],
        ..Scenario::base("zero-frame-errors")
    });
    v.push(Scenario {
        ebn0s: vec![],
        ..Scenario::base("no-points")
    });
    v.push(Scenario {
        // 12 -> 9 transmitted bits (the last parity bits are punctured),
        // interleaved in 3 columns, 3 8PSK symbols.
        psk8: true,
        puncturing: Some(vec![true, true, true, false]),
        interleaving: Some(-3),
        bch: true,
        ebn0s: vec![40.0, 41.0],
        ..Scenario::base("psk8-punctured-interleaved")
    });
    v.push(Scenario {
        interleaving: Some(4),
        ..Scenario::base("interleaved")
    });
    // Failure-injecting configurations.
    v.push(Scenario {
        puncturing: Some(vec![true, true, true, true, false]),
        expect_ok: false,
        ..Scenario::base("fail-puncturing")
    });
    v.push(Scenario {
        puncturing: Some(vec![true, true, true, true, false]),
        expect_ok: false,
        report_interval: None,
        ebn0s: vec![30.0, 31.0],
        ..Scenario::base("fail-puncturing-no-reporter")
    });
    v.push(Scenario {
        interleaving: Some(5),
        expect_ok: false,
        ..Scenario::base("fail-interleaver")
    });
    v.push(Scenario {
        psk8: true,
        k: 5,
        expect_ok: false,
        ebn0s: vec![40.0, 41.0],
        ..Scenario::base("fail-modulator")
    });
    v.push(Scenario {
        // 12 -> 8 bits: the puncturer is fine, the 8PSK modulator is not.
        psk8: true,
        puncturing: Some(vec![true, true, false]),
        expect_ok: false,
        ..Scenario::base("fail-modulator-after-puncturing")
    });
    v.push(Scenario {
        fault: Fault::PanicEvenDecoders,
        expect_ok: false,
        max_frame_errors: 30,
        ..Scenario::base("fail-some-decoders")
    });
    v.push(Scenario {
        fault: Fault::PanicEvenDecoders,
        expect_ok: false,
        max_frame_errors: 30,
        bch: true,
        max_delay_us: 0,
        ..Scenario::base("fail-some-decoders-bch-fast")
    });
    v.push(Scenario {
        fault: Fault::PanicAllDecoders,
        expect_ok: false,
        ebn0s: vec![30.0, 31.0],
        ..Scenario::base("fail-all-decoders")
    });
    v.push(Scenario {
        fault: Fault::PanicAfterTotal(150),
        expect_ok: false,
        ebn0s: vec![30.0, 31.0, 32.0, 33.0, 34.0, 35.0, 36.0, 37.0],
        max_frame_errors: 20,
        ..Scenario::base("fail-late")
    });
    v
}

fn quiet_worker_panics() {
    // Panics injected in the (unnamed) worker threads are expected; keep the
    // default report for every named thread (test and scenario threads).
    let default_hook = std::panic::take_hook();
    std::panic::set_hook(Box::new(move |info| {
        if std::thread::current().name().is_some() {
            default_hook(info);
        }
    }));
}

#[test]
fn all_scenarios() {
    quiet_worker_panics();
    let rounds = if std::env::var_os("SEEDED_DEMO_CHILD").is_some() {
        1
    } else {
        3
    };
    for _ in 0..rounds {
        for sc in scenarios() {
            check(&sc);
        }
    }
}

fn allowed_cpus() -> Option<Vec<usize>> {
    let status = std::fs::read_to_string("/proc/self/status").ok()?;
    let line = status
        .lines()
        .find(|l| l.starts_with("Cpus_allowed_list:"))?;
    let list = line.split(':').nth(1)?.trim();
    let mut cpus = Vec::new();
    for part in list.split(',') {
        let mut it = part.trim().split('-');
        let lo: usize = it.next()?.parse().ok()?;
        let hi: usize = match it.next() {
            Some(h) => h.parse().ok()?,
            None => lo,
        };
        cpus.extend(lo..=hi);
    }
    Some(cpus)
}

// Runs all the scenarios again with several worker counts, by re-executing
// this test binary under `taskset` (the engine uses one worker per CPU of the
// affinity mask). Skipped silently where this is not possible.
#[test]
fn worker_counts_via_taskset() {
    if std::env::var_os("SEEDED_DEMO_CHILD").is_some() {
        return;
    }
    let Some(cpus) = allowed_cpus() else {
        eprintln!("cannot determine allowed CPUs; skipping");
        return;
    };
    let Ok(exe) = std::env::current_exe() else {
        return;
    };
    for n in [1usize, 2, 3, 5, 8, 16] {
        if n > cpus.len() {
            continue;
        }
        let list = cpus[..n]
            .iter()
            .map(|c| c.to_string())
            .collect::<Vec<_>>()
            .join(",");
        let child = std::process::Command::new("taskset")
            .arg("-c")
            .arg(&list)
            .arg(&exe)
            .args(["--exact", "all_scenarios", "--test-threads", "1"])
            .env("SEEDED_DEMO_CHILD", "1")
            .output();
        let output = match child {
            Ok(o) => o,
            Err(e) => {
                eprintln!("cannot run taskset ({e}); skipping");
                return;
            }
        };
        let stdout = String::from_utf8_lossy(&output.stdout);
        let stderr = String::from_utf8_lossy(&output.stderr);
        if !output.status.success() && stderr.contains("failed to set") {
            eprintln!("taskset cannot set the affinity; skipping");
            return;
        }
        assert!(
            output.status.success() && stdout.contains("1 passed"),
            "scenarios failed with {n} workers\n--- stdout\n{stdout}\n--- stderr\n{stderr}"
        );
        eprintln!("all scenarios pass with {n} CPUs in the affinity mask");
    }
}
