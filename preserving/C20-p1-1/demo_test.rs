//! Demo for the `encode` subcommand: the file written by the command-line tool
//! is, for each complete information word of the input, exactly the
//! (punctured) codeword computed by the library, and nothing more.

use ldpc_toolbox::{
    cli::ber::parse_puncturing_pattern, encoder::Encoder, gf2::GF2,
    simulation::puncturing::Puncturer, sparse::SparseMatrix, systematic::parity_to_systematic,
};
use ndarray::Array1;
use num_traits::{One, Zero};
use std::{
    fs,
    io::Write,
    path::{Path, PathBuf},
    process::{Command, Output, Stdio},
    time::{Duration, Instant},
};

const BIN: &str = env!("CARGO_BIN_EXE_ldpc-toolbox");

struct Dir(PathBuf);

impl Dir {
    fn new(name: &str) -> Dir {
        let p = std::env::temp_dir().join(format!(
            "ldpc-toolbox-encode-demo-{}-{}",
            name,
            std::process::id()
        ));
        let _ = fs::remove_dir_all(&p);
        fs::create_dir_all(&p).unwrap();
        Dir(p)
    }
    fn path(&self, f: &str) -> PathBuf {
        self.0.join(f)
    }
}

impl Drop for Dir {
    fn drop(&mut self) {
        let _ = fs::remove_dir_all(&self.0);
    }
}

// Small deterministic generator for the input data
struct Lcg(u64);
impl Lcg {
    fn next(&mut self) -> u64 {
        self.0 = self
            .0
            .wrapping_mul(6364136223846793005)
            .wrapping_add(1442695040888963407);
        self.0 >> 33
    }
}

fn peg_systematic(nrows: usize, ncols: usize, wc: usize, seed: u64) -> SparseMatrix {
    let h = ldpc_toolbox::peg::Config { nrows, ncols, wc }
        .run(seed)
        .unwrap();
    parity_to_systematic(&h).unwrap()
}

// A staircase (repeat-accumulate) code, which uses the other encoder type
fn staircase(nrows: usize, k: usize) -> SparseMatrix {
    let mut h = SparseMatrix::new(nrows, k + nrows);
    for j in 0..nrows {
        h.insert(j, k + j);
        if j > 0 {
            h.insert(j, k + j - 1);
        }
        h.insert(j, (3 * j) % k);
        h.insert(j, (5 * j + 1) % k);
        if (3 * j) % k == (5 * j + 1) % k {
            h.insert(j, (5 * j + 2) % k);
        }
    }
    h
}

fn expected(h: &SparseMatrix, input: &[u8], pattern: Option<&str>) -> Vec<u8> {
    let encoder = Encoder::from_h(h).unwrap();
    let puncturer = pattern.map(|p| Puncturer::new(&parse_puncturing_pattern(p).unwrap()));
    let k = h.num_cols() - h.num_rows();
    let mut out = Vec::new();
    for word in input.chunks_exact(k) {
        let word = Array1::from_iter(
            word.iter()
                .map(|&b| if b == 1 { GF2::one() } else { GF2::zero() }),
        );
        let cw = encoder.encode(&word);
        let cw = match &puncturer {
            Some(p) => p.puncture(&cw).unwrap(),
            None => cw,
        };
        out.extend(cw.iter().map(|x| if x.is_one() { 1u8 } else { 0u8 }));
    }
    out
}

fn run_encode(alist: &Path, input: &Path, output: &Path, pattern: Option<&str>) -> Output {
    let mut cmd = Command::new(BIN);
    cmd.arg("encode").arg(alist).arg(input).arg(output);
    if let Some(p) = pattern {
        cmd.arg("--puncturing").arg(p);
    }
    cmd.stdin(Stdio::null()).output().unwrap()
}

fn random_bits(rng: &mut Lcg, len: usize) -> Vec<u8> {
    (0..len).map(|_| (rng.next() & 1) as u8).collect()
}

#[test]
fn encode_matches_library() {
    let dir = Dir::new("match");
    let mut rng = Lcg(12345);
    let codes = [
        ("peg_6_12", peg_systematic(6, 12, 3, 0)),
        ("peg_20_60", peg_systematic(20, 60, 3, 1)),
        ("peg_30_40", peg_systematic(30, 40, 3, 2)),
        ("stair_12_24", staircase(12, 24)),
        ("stair_7_1", staircase(7, 1)),
        ("stair_1_9", staircase(1, 9)),
    ];
    for (name, h) in &codes {
        let n = h.num_cols();
        let k = n - h.num_rows();
        let alist = dir.path(&format!("{name}.alist"));
        fs::write(&alist, h.alist()).unwrap();
        // Numbers of bytes in the input: no word, incomplete single word,
        // exactly some words, some words and an incomplete one, and enough
        // words to need many reads.
        let mut lengths = vec![
            0,
            k - 1,
            k,
            k + 1,
            2 * k - 1,
            2 * k,
            7 * k + k / 2,
            100 * k,
            (70000 / k) * k,
            (70000 / k) * k + k - 1,
            if k >= 8 { (200000 / k) * k + 1 } else { 0 },
        ];
        lengths.sort();
        lengths.dedup();
        // Patterns whose length divides n
        let mut patterns: Vec<Option<String>> = vec![None, Some("1".into()), Some("0".into())];
        for len in 2..=6 {
            if n % len == 0 {
                for mask in [1usize, (1 << len) - 2, 0b101, 0, (1 << len) - 1] {
                    let p = (0..len)
                        .map(|j| if (mask >> j) & 1 == 1 { "1" } else { "0" })
                        .collect::<Vec<_>>()
                        .join(",");
                    patterns.push(Some(p));
                }
            }
        }
        for (j, &len) in lengths.iter().enumerate() {
            let input_data = random_bits(&mut rng, len);
            let input = dir.path("input.u8");
            fs::write(&input, &input_data).unwrap();
            // All the patterns for the short inputs, a few for the long ones
            let pats: Vec<_> = if len <= 100 * k {
                patterns.iter().collect()
            } else {
                patterns.iter().skip(j % 2).step_by(4).collect()
            };
            for pattern in pats {
                let pattern = pattern.as_deref();
                let output = dir.path("output.u8");
                // Stale contents must be replaced
                fs::write(&output, b"stale contents").unwrap();
                let ret = run_encode(&alist, &input, &output, pattern);
                assert!(
                    ret.status.success(),
                    "{name} len {len} pattern {pattern:?}: {ret:?}"
                );
                assert!(ret.stdout.is_empty());
                let got = fs::read(&output).unwrap();
                let want = expected(h, &input_data, pattern);
                assert!(
                    got == want,
                    "{name} len {len} pattern {pattern:?}: output differs"
                );
                let kept = match pattern {
                    None => n,
                    Some(p) => n / p.split(',').count() * p.matches('1').count(),
                };
                assert_eq!(got.len(), (len / k) * kept);
            }
        }
    }
}

#[test]
fn bytes_other_than_one_are_zeros() {
    let dir = Dir::new("bytes");
    let h = peg_systematic(8, 24, 3, 5);
    let k = 16;
    let alist = dir.path("h.alist");
    fs::write(&alist, h.alist()).unwrap();
    let mut rng = Lcg(99);
    let input_data: Vec<u8> = (0..k * 300 + 3)
        .map(|_| match rng.next() % 6 {
            0 => 0,
            1 | 2 => 1,
            3 => b'1',
            4 => 255,
            _ => 2,
        })
        .collect();
    let input = dir.path("in");
    let output = dir.path("out");
    fs::write(&input, &input_data).unwrap();
    for pattern in [None, Some("1,1,0"), Some("0,1,1,0")] {
        let ret = run_encode(&alist, &input, &output, pattern);
        assert!(ret.status.success(), "{ret:?}");
        let got = fs::read(&output).unwrap();
        assert!(got == expected(&h, &input_data, pattern));
        // The systematic part tells how each byte has been read
        if pattern.is_none() {
            for (w, cw) in input_data.chunks_exact(k).zip(got.chunks_exact(24)) {
                for (&a, &b) in w.iter().zip(cw) {
                    assert_eq!(b, u8::from(a == 1));
                }
            }
        }
    }
}

#[test]
fn real_code_with_puncturing() {
    // CCSDS AR4JA r=1/2 k=1024 code, whose last fifth is punctured
    use ldpc_toolbox::codes::ccsds::{AR4JACode, AR4JAInfoSize, AR4JARate};
    let dir = Dir::new("ar4ja");
    let h = AR4JACode::new(AR4JARate::R1_2, AR4JAInfoSize::K1024).h();
    assert_eq!(h.num_cols(), 2560);
    let alist = dir.path("ar4ja.alist");
    fs::write(&alist, h.alist()).unwrap();
    let mut rng = Lcg(7);
    let input_data = random_bits(&mut rng, 1024 * 5 + 1000);
    let input = dir.path("in");
    let output = dir.path("out");
    fs::write(&input, &input_data).unwrap();
    for pattern in [Some("1,1,1,1,0"), None] {
        let ret = run_encode(&alist, &input, &output, pattern);
        assert!(ret.status.success(), "{ret:?}");
        let got = fs::read(&output).unwrap();
        assert_eq!(got.len(), 5 * if pattern.is_some() { 2048 } else { 2560 });
        assert!(got == expected(&h, &input_data, pattern));
    }
}

fn assert_clean_failure(ret: &Output, what: &str) {
    assert!(!ret.status.success(), "{what}: should fail");
    // An error exit rather than a panic (101) or a signal
    let code = ret.status.code().expect("killed by a signal");
    assert_ne!(code, 101, "{what}: panicked: {ret:?}");
    let stderr = String::from_utf8_lossy(&ret.stderr);
    assert!(!stderr.trim().is_empty(), "{what}: no message");
    assert!(!stderr.contains("panicked"), "{what}: {stderr}");
}

#[test]
fn errors() {
    let dir = Dir::new("errors");
    let h = peg_systematic(6, 12, 3, 0);
    let alist = dir.path("h.alist");
    fs::write(&alist, h.alist()).unwrap();
    let input = dir.path("in");
    fs::write(&input, [1u8; 6 * 4]).unwrap();
    let output = dir.path("out");

    // Malformed puncturing patterns
    for p in ["", "2", "1,2", "1,,1", "1,1,", ",1", "1 ,0", "a", "1;0", "01", "true"] {
        let ret = run_encode(&alist, &input, &output, Some(p));
        assert_clean_failure(&ret, &format!("pattern {p:?}"));
    }
    // Pattern length that does not divide the codeword size
    for p in ["1,1,0,1,1", "1,0,0,0,0,0,0", "1,1,1,1,1,1,1,1", "0,0,0,0,0"] {
        let _ = fs::remove_file(&output);
        let ret = run_encode(&alist, &input, &output, Some(p));
        assert_clean_failure(&ret, &format!("pattern {p:?}"));
        // Nothing has been encoded
        assert_eq!(fs::read(&output).unwrap().len(), 0);
    }
    // ... which is only found out when there is a word to puncture
    fs::write(dir.path("short"), [1u8; 5]).unwrap();
    let ret = run_encode(&alist, &dir.path("short"), &output, Some("1,1,0,1,1"));
    assert!(ret.status.success());
    assert_eq!(fs::read(&output).unwrap().len(), 0);

    // Missing files
    let ret = run_encode(&dir.path("missing.alist"), &input, &output, None);
    assert_clean_failure(&ret, "missing alist");
    let _ = fs::remove_file(&output);
    let ret = run_encode(&alist, &dir.path("missing"), &output, None);
    assert_clean_failure(&ret, "missing input");
    assert!(!output.exists());
    let ret = run_encode(&alist, &input, &dir.path("nodir/out"), None);
    assert_clean_failure(&ret, "output in missing directory");
    // Input that cannot be read
    let ret = run_encode(&alist, &dir.0, &output, None);
    assert_clean_failure(&ret, "directory as input");

    // Malformed alist
    fs::write(dir.path("bad.alist"), "12 6\n3 x\n").unwrap();
    let ret = run_encode(&dir.path("bad.alist"), &input, &output, None);
    assert_clean_failure(&ret, "bad alist");
    fs::write(dir.path("empty.alist"), "").unwrap();
    let ret = run_encode(&dir.path("empty.alist"), &input, &output, None);
    assert_clean_failure(&ret, "empty alist");

    // The last columns do not form an invertible matrix
    let mut sing = SparseMatrix::new(3, 6);
    for j in 0..3 {
        sing.insert(j, j);
        sing.insert(j, 3);
        sing.insert(j, 4);
    }
    fs::write(dir.path("sing.alist"), sing.alist()).unwrap();
    let ret = run_encode(&dir.path("sing.alist"), &input, &output, None);
    assert_clean_failure(&ret, "singular");

    // Output that cannot be written
    if Path::new("/dev/full").exists() {
        let ret = run_encode(&alist, &input, Path::new("/dev/full"), None);
        assert_clean_failure(&ret, "/dev/full");
        let ret = run_encode(&alist, &input, Path::new("/dev/full"), Some("1,0"));
        assert_clean_failure(&ret, "/dev/full punctured");
        // but there is nothing to write in these cases
        let ret = run_encode(&alist, &dir.path("short"), Path::new("/dev/full"), None);
        assert!(ret.status.success(), "{ret:?}");
        let ret = run_encode(&alist, &input, Path::new("/dev/full"), Some("0,0"));
        assert!(ret.status.success(), "{ret:?}");
    }
}

#[test]
fn same_file_as_input_and_output() {
    // The output is created (truncated) before anything is read
    let dir = Dir::new("same");
    let h = peg_systematic(6, 12, 3, 0);
    let alist = dir.path("h.alist");
    fs::write(&alist, h.alist()).unwrap();
    let file = dir.path("inout");
    fs::write(&file, [1u8; 60]).unwrap();
    let ret = run_encode(&alist, &file, &file, None);
    assert!(ret.status.success(), "{ret:?}");
    assert_eq!(fs::read(&file).unwrap().len(), 0);
}

#[test]
fn codewords_are_written_as_words_arrive() {
    // Input through a FIFO: each codeword is in the output file once its
    // information word has been supplied, without waiting for more input.
    let dir = Dir::new("fifo");
    let fifo = dir.path("fifo");
    match Command::new("mkfifo").arg(&fifo).status() {
        Ok(s) if s.success() => (),
        _ => {
            eprintln!("mkfifo not available; skipping");
            return;
        }
    }
    let h = peg_systematic(10, 30, 3, 3);
    let (n, k) = (30, 20);
    let alist = dir.path("h.alist");
    fs::write(&alist, h.alist()).unwrap();
    let output = dir.path("out");
    let mut child = Command::new(BIN)
        .arg("encode")
        .arg(&alist)
        .arg(&fifo)
        .arg(&output)
        .stdin(Stdio::null())
        .spawn()
        .unwrap();
    let mut writer = fs::OpenOptions::new().write(true).open(&fifo).unwrap();
    let mut rng = Lcg(2024);
    let data = random_bits(&mut rng, 6 * k + 7);
    let want = expected(&h, &data, None);
    // Pieces that do not respect the word boundaries
    let cuts = [0, 5, k, k + 1, 3 * k - 1, 3 * k, 5 * k + 2, 6 * k, 6 * k + 7];
    for w in cuts.windows(2) {
        writer.write_all(&data[w[0]..w[1]]).unwrap();
        writer.flush().unwrap();
        let complete = w[1] / k;
        let deadline = Instant::now() + Duration::from_secs(20);
        loop {
            let got = fs::read(&output).unwrap_or_default();
            assert!(got.len() <= complete * n, "more than the complete words");
            if got.len() == complete * n {
                assert!(got == want[..complete * n]);
                break;
            }
            if Instant::now() > deadline {
                let _ = child.kill();
                panic!("codeword {complete} not written while the input is open");
            }
            std::thread::sleep(Duration::from_millis(5));
        }
    }
    drop(writer);
    let status = child.wait().unwrap();
    assert!(status.success());
    assert!(fs::read(&output).unwrap() == want);
}
