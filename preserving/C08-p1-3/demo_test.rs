// Demo for change 3 (alist writer: the sorted index lists of each direction are
// obtained by transposing the lists of the other direction instead of sorting a
// copy of every list). Public API only.
//
// The matrices are built through every mutating entry point of the public API
// (insert, remove, toggle, insert_row/col, set_row/col, clear_row/col, from_alist,
// clone) following a model kept in a BTreeSet, and the text is compared byte for
// byte with an independent reference writer working from the model.

use ldpc_toolbox::sparse::SparseMatrix;
use std::collections::BTreeSet;

struct Rng(u64);

impl Rng {
    fn next(&mut self) -> u64 {
        // xorshift64*
        self.0 ^= self.0 >> 12;
        self.0 ^= self.0 << 25;
        self.0 ^= self.0 >> 27;
        self.0.wrapping_mul(0x2545F4914F6CDD1D)
    }
    fn below(&mut self, n: usize) -> usize {
        (self.next() % (n as u64)) as usize
    }
}

fn join(v: &[usize]) -> String {
    v.iter()
        .map(|x| x.to_string())
        .collect::<Vec<_>>()
        .join(" ")
}

/// Independent reference for the alist text.
fn reference_alist(nrows: usize, ncols: usize, ones: &BTreeSet<(usize, usize)>, pad: bool) -> String {
    let mut cols = vec![Vec::new(); ncols];
    let mut rows = vec![Vec::new(); nrows];
    for &(r, c) in ones {
        // BTreeSet iteration is sorted by (r, c), so both kinds of lists come
        // out sorted
        cols[c].push(r + 1);
        rows[r].push(c + 1);
    }
    let maxc = cols.iter().map(|v| v.len()).max().unwrap_or(0);
    let maxr = rows.iter().map(|v| v.len()).max().unwrap_or(0);
    let mut s = String::new();
    s += &format!("{} {}\n", ncols, nrows);
    s += &format!("{} {}\n", maxc, maxr);
    s += &join(&cols.iter().map(|v| v.len()).collect::<Vec<_>>());
    s += "\n";
    s += &join(&rows.iter().map(|v| v.len()).collect::<Vec<_>>());
    s += "\n";
    for (lists, max) in [(&cols, maxc), (&rows, maxr)] {
        for l in lists.iter() {
            let mut l = l.clone();
            if pad {
                if l.is_empty() {
                    l.push(0);
                }
                while l.len() < max {
                    l.push(0);
                }
            }
            s += &join(&l);
            s += "\n";
        }
    }
    s
}

fn check(h: &SparseMatrix, nrows: usize, ncols: usize, ones: &BTreeSet<(usize, usize)>) {
    assert_eq!(h.num_rows(), nrows);
    assert_eq!(h.num_cols(), ncols);
    let padded = reference_alist(nrows, ncols, ones, true);
    let unpadded = reference_alist(nrows, ncols, ones, false);
    assert_eq!(h.alist(), padded);
    assert_eq!(h.alist_no_padding(), unpadded);

    // the writer entry points agree with the String entry points, also when
    // appending to a non-empty buffer
    let mut buf = String::from("prefix|");
    h.write_alist(&mut buf).unwrap();
    assert_eq!(buf, format!("prefix|{}", padded));
    let mut buf = String::from("prefix|");
    h.write_alist_no_padding(&mut buf).unwrap();
    assert_eq!(buf, format!("prefix|{}", unpadded));

    // round trip
    for text in [&padded, &unpadded] {
        let h2 = SparseMatrix::from_alist(text).unwrap();
        assert_eq!(h2.num_rows(), nrows);
        assert_eq!(h2.num_cols(), ncols);
        let got: BTreeSet<(usize, usize)> = h2.iter_all().collect();
        assert_eq!(&got, ones);
        assert_eq!(h2.alist(), padded);
        assert_eq!(h2.alist_no_padding(), unpadded);
    }
    if ncols > 0 {
        assert_eq!(
            SparseMatrix::from_alist(&padded).unwrap(),
            SparseMatrix::from_alist(&unpadded).unwrap()
        );
    }
}

/// Applies a random sequence of operations to a matrix and to the model,
/// checking the text every few operations.
fn random_operations(rng: &mut Rng, nrows: usize, ncols: usize, nops: usize) {
    let mut h = SparseMatrix::new(nrows, ncols);
    let mut ones: BTreeSet<(usize, usize)> = BTreeSet::new();
    for op in 0..nops {
        let r = rng.below(nrows);
        let c = rng.below(ncols);
        match rng.below(12) {
            0 | 1 | 2 => {
                h.insert(r, c);
                ones.insert((r, c));
            }
            3 => {
                h.remove(r, c);
                ones.remove(&(r, c));
            }
            4 => {
                h.toggle(r, c);
                if !ones.remove(&(r, c)) {
                    ones.insert((r, c));
                }
            }
            5 => {
                // with repetitions, in random order
                let n = rng.below(ncols + 2);
                let v: Vec<usize> = (0..n).map(|_| rng.below(ncols)).collect();
                h.insert_row(r, v.iter());
                for &k in &v {
                    ones.insert((r, k));
                }
            }
            6 => {
                let n = rng.below(nrows + 2);
                let v: Vec<usize> = (0..n).map(|_| rng.below(nrows)).collect();
                h.insert_col(c, v.iter());
                for &j in &v {
                    ones.insert((j, c));
                }
            }
            7 => {
                let n = rng.below(ncols + 1);
                let v: Vec<usize> = (0..n).map(|_| rng.below(ncols)).collect();
                h.set_row(r, v.iter());
                ones.retain(|&(j, _)| j != r);
                for &k in &v {
                    ones.insert((r, k));
                }
            }
            8 => {
                let n = rng.below(nrows + 1);
                let v: Vec<usize> = (0..n).map(|_| rng.below(nrows)).collect();
                h.set_col(c, v.into_iter());
                let now: Vec<usize> = h.iter_col(c).copied().collect();
                ones.retain(|&(_, k)| k != c);
                for j in now {
                    ones.insert((j, c));
                }
            }
            9 => {
                h.clear_row(r);
                ones.retain(|&(j, _)| j != r);
            }
            10 => {
                h.clear_col(c);
                ones.retain(|&(_, k)| k != c);
            }
            _ => {
                // continue from a parsed copy or from a clone
                h = if rng.below(2) == 0 {
                    SparseMatrix::from_alist(&h.alist_no_padding()).unwrap()
                } else {
                    h.clone()
                };
            }
        }
        if op % 5 == 4 || op + 1 == nops {
            let got: BTreeSet<(usize, usize)> = h.iter_all().collect();
            assert_eq!(got, ones);
            check(&h, nrows, ncols, &ones);
        }
    }
}

#[test]
fn writer_after_random_operations() {
    let mut rng = Rng(0x8EBC6AF09C88C6E3);
    let shapes = [
        (1, 1),
        (1, 2),
        (2, 1),
        (1, 9),
        (9, 1),
        (2, 2),
        (3, 4),
        (6, 5),
        (7, 16),
        (15, 6),
    ];
    for &(nrows, ncols) in &shapes {
        for _ in 0..12 {
            random_operations(&mut rng, nrows, ncols, 60);
        }
    }
}

#[test]
fn writer_all_zero_and_degenerate_shapes() {
    for &(nrows, ncols) in &[(1, 1), (1, 4), (4, 1), (3, 3), (0, 0), (0, 3), (3, 0)] {
        let h = SparseMatrix::new(nrows, ncols);
        let ones = BTreeSet::new();
        let padded = reference_alist(nrows, ncols, &ones, true);
        let unpadded = reference_alist(nrows, ncols, &ones, false);
        assert_eq!(h.alist(), padded);
        assert_eq!(h.alist_no_padding(), unpadded);
        assert_eq!(SparseMatrix::from_alist(&padded).unwrap(), h);
        assert_eq!(SparseMatrix::from_alist(&unpadded).unwrap(), h);
    }
    assert_eq!(SparseMatrix::new(1, 1).alist(), "1 1\n0 0\n0\n0\n0\n0\n");
    assert_eq!(SparseMatrix::new(1, 1).alist_no_padding(), "1 1\n0 0\n0\n0\n\n\n");
    assert_eq!(SparseMatrix::new(0, 2).alist(), "2 0\n0 0\n0 0\n\n0\n0\n");
    assert_eq!(SparseMatrix::new(2, 0).alist(), "0 2\n0 0\n\n0 0\n0\n0\n");
    assert_eq!(SparseMatrix::new(0, 0).alist(), "0 0\n0 0\n\n\n");

    // a matrix that was filled and emptied again
    let mut h = SparseMatrix::new(3, 2);
    for r in 0..3 {
        for c in 0..2 {
            h.insert(2 - r, 1 - c);
        }
    }
    assert_eq!(
        h.alist(),
        "2 3\n3 2\n3 3\n2 2 2\n1 2 3\n1 2 3\n1 2\n1 2\n1 2\n"
    );
    h.clear_col(0);
    assert_eq!(
        h.alist(),
        "2 3\n3 1\n0 3\n1 1 1\n0 0 0\n1 2 3\n2\n2\n2\n"
    );
    assert_eq!(
        h.alist_no_padding(),
        "2 3\n3 1\n0 3\n1 1 1\n\n1 2 3\n2\n2\n2\n"
    );
    h.clear_row(1);
    h.clear_row(0);
    h.remove(2, 1);
    assert_eq!(h, SparseMatrix::new(3, 2));
    assert_eq!(h.alist(), "2 3\n0 0\n0 0\n0 0 0\n0\n0\n0\n0\n0\n");
}

#[test]
fn writer_code_matrices() {
    use ldpc_toolbox::codes::ccsds::{AR4JACode, AR4JAInfoSize, AR4JARate, C2Code};
    let mut matrices = vec![
        C2Code::new().h(),
        AR4JACode::new(AR4JARate::R1_2, AR4JAInfoSize::K1024).h(),
        AR4JACode::new(AR4JARate::R4_5, AR4JAInfoSize::K1024).h(),
    ];
    for seed in 0..3 {
        let conf = ldpc_toolbox::peg::Config {
            nrows: 30,
            ncols: 60,
            wc: 3,
        };
        matrices.push(conf.run(seed).unwrap());
    }
    for h in &matrices {
        let ones: BTreeSet<(usize, usize)> = h.iter_all().collect();
        check(h, h.num_rows(), h.num_cols(), &ones);
    }
}
