// Demonstration that the C interface is a faithful wrapper of the Rust encoder
// and decoder. Uses only std and the public API of `ldpc_toolbox`; the C entry
// points are reached through their exported (`no_mangle`) symbols.

use ldpc_toolbox::{
    decoder::{
        LdpcDecoder,
        factory::{DecoderFactory, DecoderImplementation},
    },
    simulation::puncturing::Puncturer,
    sparse::SparseMatrix,
};
use std::{
    ffi::{CString, c_char, c_void},
    sync::mpsc,
    time::Duration,
};

unsafe extern "C" {
    fn ldpc_toolbox_decoder_ctor(
        alist_file_path: *const c_char,
        implementation: *const c_char,
        puncturing: *const c_char,
    ) -> *mut c_void;
    fn ldpc_toolbox_decoder_ctor_alist_string(
        alist: *const c_char,
        implementation: *const c_char,
        puncturing: *const c_char,
    ) -> *mut c_void;
    fn ldpc_toolbox_decoder_dtor(decoder: *mut c_void);
    fn ldpc_toolbox_decoder_decode_f64(
        decoder: *mut c_void,
        output: *mut u8,
        output_len: usize,
        llrs: *const f64,
        llrs_len: usize,
        max_iterations: u32,
    ) -> i32;
    fn ldpc_toolbox_decoder_decode_f32(
        decoder: *mut c_void,
        output: *mut u8,
        output_len: usize,
        llrs: *const f32,
        llrs_len: usize,
        max_iterations: u32,
    ) -> i32;
    fn ldpc_toolbox_encoder_ctor(
        alist_file_path: *const c_char,
        puncturing: *const c_char,
    ) -> *mut c_void;
    fn ldpc_toolbox_encoder_ctor_alist_string(
        alist: *const c_char,
        puncturing: *const c_char,
    ) -> *mut c_void;
    fn ldpc_toolbox_encoder_dtor(encoder: *mut c_void);
    fn ldpc_toolbox_encoder_encode(
        encoder: *mut c_void,
        output: *mut u8,
        output_len: usize,
        input: *const u8,
        input_len: usize,
    );
}

// ---------------------------------------------------------------------------
// Infrastructure
// ---------------------------------------------------------------------------

/// Runs `f` on its own thread and fails the test if it does not finish in time.
fn with_timeout<F: FnOnce() + Send + 'static>(seconds: u64, f: F) {
    let (tx, rx) = mpsc::channel();
    let worker = std::thread::spawn(move || {
        f();
        let _ = tx.send(());
    });
    match rx.recv_timeout(Duration::from_secs(seconds)) {
        Ok(()) => worker.join().unwrap(),
        Err(mpsc::RecvTimeoutError::Disconnected) => {
            // the closure panicked: propagate
            if let Err(e) = worker.join() {
                std::panic::resume_unwind(e);
            }
            panic!("worker vanished");
        }
        Err(mpsc::RecvTimeoutError::Timeout) => panic!("timed out after {seconds} s"),
    }
}

#[derive(Clone)]
struct Rng(u64);

impl Rng {
    fn new(seed: u64) -> Rng {
        Rng(seed.wrapping_mul(0x9E37_79B9_7F4A_7C15) | 1)
    }
    fn next(&mut self) -> u64 {
        // xorshift64*
        let mut x = self.0;
        x ^= x >> 12;
        x ^= x << 25;
        x ^= x >> 27;
        self.0 = x;
        x.wrapping_mul(0x2545_F491_4F6C_DD1D)
    }
    fn below(&mut self, n: usize) -> usize {
        (self.next() >> 11) as usize % n
    }
    fn unit(&mut self) -> f64 {
        (self.next() >> 11) as f64 / (1u64 << 53) as f64
    }
    fn gauss(&mut self) -> f64 {
        // sum of 12 uniforms
        (0..12).map(|_| self.unit()).sum::<f64>() - 6.0
    }
}

fn cstr(bytes: &[u8]) -> CString {
    CString::new(bytes.to_vec()).unwrap()
}

/// Owning wrapper of a C decoder handle.
struct CDecoder(*mut c_void);
// The C interface has no thread affinity (the Rust decoders are `Send`).
unsafe impl Send for CDecoder {}

impl CDecoder {
    fn from_text(alist: &[u8], implementation: &[u8], puncturing: &[u8]) -> Option<CDecoder> {
        let (a, i, p) = (cstr(alist), cstr(implementation), cstr(puncturing));
        let h = unsafe {
            ldpc_toolbox_decoder_ctor_alist_string(a.as_ptr(), i.as_ptr(), p.as_ptr())
        };
        if h.is_null() { None } else { Some(CDecoder(h)) }
    }
    fn from_file(path: &[u8], implementation: &[u8], puncturing: &[u8]) -> Option<CDecoder> {
        let (a, i, p) = (cstr(path), cstr(implementation), cstr(puncturing));
        let h = unsafe { ldpc_toolbox_decoder_ctor(a.as_ptr(), i.as_ptr(), p.as_ptr()) };
        if h.is_null() { None } else { Some(CDecoder(h)) }
    }
    /// Decodes into a buffer of `out_len` bytes that sits inside a larger
    /// sentinel-filled area; checks that nothing outside the buffer is written.
    fn decode_f64(&mut self, out_len: usize, llrs: &[f64], max_iter: u32) -> (i32, Vec<u8>) {
        let mut area = vec![0xA5u8; out_len + 16];
        let ret = unsafe {
            ldpc_toolbox_decoder_decode_f64(
                self.0,
                area[8..].as_mut_ptr(),
                out_len,
                llrs.as_ptr(),
                llrs.len(),
                max_iter,
            )
        };
        assert!(area[..8].iter().all(|&b| b == 0xA5), "wrote before the buffer");
        assert!(
            area[8 + out_len..].iter().all(|&b| b == 0xA5),
            "wrote past the buffer"
        );
        (ret, area[8..8 + out_len].to_vec())
    }
    fn decode_f32(&mut self, out_len: usize, llrs: &[f32], max_iter: u32) -> (i32, Vec<u8>) {
        let mut area = vec![0xA5u8; out_len + 16];
        let ret = unsafe {
            ldpc_toolbox_decoder_decode_f32(
                self.0,
                area[8..].as_mut_ptr(),
                out_len,
                llrs.as_ptr(),
                llrs.len(),
                max_iter,
            )
        };
        assert!(area[..8].iter().all(|&b| b == 0xA5), "wrote before the buffer");
        assert!(
            area[8 + out_len..].iter().all(|&b| b == 0xA5),
            "wrote past the buffer"
        );
        (ret, area[8..8 + out_len].to_vec())
    }
}

impl Drop for CDecoder {
    fn drop(&mut self) {
        unsafe { ldpc_toolbox_decoder_dtor(self.0) }
    }
}

/// Owning wrapper of a C encoder handle.
struct CEncoder(*mut c_void);
unsafe impl Send for CEncoder {}

impl CEncoder {
    fn from_text(alist: &[u8], puncturing: &[u8]) -> Option<CEncoder> {
        let (a, p) = (cstr(alist), cstr(puncturing));
        let h = unsafe { ldpc_toolbox_encoder_ctor_alist_string(a.as_ptr(), p.as_ptr()) };
        if h.is_null() { None } else { Some(CEncoder(h)) }
    }
    fn from_file(path: &[u8], puncturing: &[u8]) -> Option<CEncoder> {
        let (a, p) = (cstr(path), cstr(puncturing));
        let h = unsafe { ldpc_toolbox_encoder_ctor(a.as_ptr(), p.as_ptr()) };
        if h.is_null() { None } else { Some(CEncoder(h)) }
    }
    fn encode(&mut self, out_len: usize, input: &[u8]) -> Vec<u8> {
        let mut area = vec![0xA5u8; out_len + 16];
        // keep the input in its own sentinel area too: it must not be modified
        let mut inp = vec![0x5Au8; input.len() + 16];
        inp[8..8 + input.len()].copy_from_slice(input);
        unsafe {
            ldpc_toolbox_encoder_encode(
                self.0,
                area[8..].as_mut_ptr(),
                out_len,
                inp[8..].as_ptr(),
                input.len(),
            )
        };
        assert!(area[..8].iter().all(|&b| b == 0xA5), "wrote before the buffer");
        assert!(
            area[8 + out_len..].iter().all(|&b| b == 0xA5),
            "wrote past the buffer"
        );
        assert_eq!(&inp[8..8 + input.len()], input, "input modified");
        area[8..8 + out_len].to_vec()
    }
}

impl Drop for CEncoder {
    fn drop(&mut self) {
        unsafe { ldpc_toolbox_encoder_dtor(self.0) }
    }
}

fn temp_path(tag: &str) -> std::path::PathBuf {
    use std::sync::atomic::{AtomicUsize, Ordering};
    static COUNTER: AtomicUsize = AtomicUsize::new(0);
    let n = COUNTER.fetch_add(1, Ordering::SeqCst);
    std::env::temp_dir().join(format!(
        "ldpc_c19_demo_{}_{}_{}.alist",
        std::process::id(),
        n,
        tag
    ))
}

struct TempFile(std::path::PathBuf);

impl TempFile {
    fn new(tag: &str, contents: &[u8]) -> TempFile {
        let p = temp_path(tag);
        std::fs::write(&p, contents).unwrap();
        TempFile(p)
    }
    fn path_bytes(&self) -> Vec<u8> {
        self.0.to_str().unwrap().as_bytes().to_vec()
    }
}

impl Drop for TempFile {
    fn drop(&mut self) {
        let _ = std::fs::remove_file(&self.0);
    }
}

// ---------------------------------------------------------------------------
// Parity check matrices
// ---------------------------------------------------------------------------

/// H = [H0 | S] with S the staircase (dual diagonal) and H0 random.
fn staircase_h(rows: usize, k: usize, rng: &mut Rng) -> SparseMatrix {
    let mut h = SparseMatrix::new(rows, k + rows);
    for c in 0..k {
        let w = 1 + rng.below(3.min(rows));
        for _ in 0..w {
            h.insert(rng.below(rows), c);
        }
    }
    for r in 0..rows {
        // every check node gets at least two variable nodes
        if h.row_weight(r) == 0 {
            h.insert(r, r % k);
        }
        h.insert(r, k + r);
        if r > 0 {
            h.insert(r, k + r - 1);
        }
    }
    h
}

/// H = [H0 | H1] with H1 invertible and not of staircase type (a row
/// permutation of a random unit lower triangular matrix).
fn dense_h(rows: usize, k: usize, rng: &mut Rng) -> SparseMatrix {
    assert!(rows >= 3);
    let mut perm: Vec<usize> = (0..rows).collect();
    for i in (1..rows).rev() {
        perm.swap(i, rng.below(i + 1));
    }
    let mut h = SparseMatrix::new(rows, k + rows);
    for c in 0..k {
        let w = 1 + rng.below(3);
        for _ in 0..w {
            h.insert(rng.below(rows), c);
        }
    }
    for r in 0..rows {
        // every check node gets at least two variable nodes
        if h.row_weight(r) == 0 {
            h.insert(r, r % k);
        }
    }
    for r in 0..rows {
        h.insert(perm[r], k + r);
        for c in 0..r {
            if rng.below(3) == 0 {
                h.insert(perm[r], k + c);
            }
        }
    }
    // make sure that this can never be a staircase
    h.insert(perm[rows - 1], k);
    h
}

/// Like `dense_h` but with two equal columns in the last block: singular.
fn singular_h(rows: usize, k: usize, rng: &mut Rng) -> SparseMatrix {
    let good = dense_h(rows, k, rng);
    let mut h = SparseMatrix::new(rows, k + rows);
    for (r, c) in good.iter_all() {
        if c != k + rows - 1 {
            h.insert(r, c);
        }
    }
    let src: Vec<usize> = good.iter_col(k).copied().collect();
    for r in src {
        h.insert(r, k + rows - 1);
    }
    h
}

fn syndrome_is_zero(h: &SparseMatrix, word: &[u8]) -> bool {
    assert_eq!(word.len(), h.num_cols());
    (0..h.num_rows()).all(|r| h.iter_row(r).map(|&c| word[c] as usize).sum::<usize>() % 2 == 0)
}

fn parse_pattern(p: &str) -> Option<Vec<bool>> {
    if p.is_empty() {
        None
    } else {
        Some(ldpc_toolbox::cli::ber::parse_puncturing_pattern(p).unwrap())
    }
}

/// Reference puncturing of a full codeword (block-wise selection).
fn puncture_ref(pattern: &Option<Vec<bool>>, word: &[u8]) -> Vec<u8> {
    match pattern {
        None => word.to_vec(),
        Some(p) => {
            assert_eq!(word.len() % p.len(), 0);
            let bs = word.len() / p.len();
            let mut out = Vec::new();
            for (j, &keep) in p.iter().enumerate() {
                if keep {
                    out.extend_from_slice(&word[j * bs..(j + 1) * bs]);
                }
            }
            out
        }
    }
}

const IMPLEMENTATIONS: &[&str] = &[
    "Phif64",
    "Phif32",
    "Tanhf64",
    "Tanhf32",
    "Minstarapproxf64",
    "Minstarapproxf32",
    "Minstarapproxi8",
    "Minstarapproxi8Jones",
    "Minstarapproxi8PartialHardLimit",
    "Minstarapproxi8JonesPartialHardLimit",
    "Minstarapproxi8Deg1Clip",
    "Minstarapproxi8JonesDeg1Clip",
    "Minstarapproxi8PartialHardLimitDeg1Clip",
    "Minstarapproxi8JonesPartialHardLimitDeg1Clip",
    "Aminstarf64",
    "Aminstarf32",
    "Aminstari8",
    "Aminstari8Jones",
    "Aminstari8PartialHardLimit",
    "Aminstari8JonesPartialHardLimit",
    "Aminstari8Deg1Clip",
    "Aminstari8JonesDeg1Clip",
    "Aminstari8PartialHardLimitDeg1Clip",
    "Aminstari8JonesPartialHardLimitDeg1Clip",
    "HLPhif64",
    "HLPhif32",
    "HLTanhf64",
    "HLTanhf32",
    "HLMinstarapproxf64",
    "HLMinstarapproxf32",
    "HLMinstarapproxi8",
    "HLMinstarapproxi8PartialHardLimit",
    "HLAminstarf64",
    "HLAminstarf32",
    "HLAminstari8",
    "HLAminstari8PartialHardLimit",
];

/// The Rust side of the comparison: a decoder built by the factory plus the
/// depuncturing of the public `Puncturer`.
struct Reference {
    decoder: Box<dyn LdpcDecoder>,
    puncturer: Option<Puncturer>,
}

impl Reference {
    fn new(h: &SparseMatrix, implementation: &str, pattern: &Option<Vec<bool>>) -> Reference {
        let implementation: DecoderImplementation = implementation.parse().unwrap();
        // Build the decoder from the matrix as parsed from its alist text, as
        // the C constructors do: the order in which the entries of a row or
        // column are stored (and hence the order of the message arithmetic,
        // which is not associative) is the order of insertion.
        let h = SparseMatrix::from_alist(&h.alist()).unwrap();
        Reference {
            decoder: implementation.build_decoder(h),
            puncturer: pattern.as_ref().map(|p| Puncturer::new(p)),
        }
    }
    /// Returns the expected C return value and the full decoded word.
    fn decode(&mut self, llrs: &[f64], max_iter: u32) -> (i32, Vec<u8>) {
        let full = match &self.puncturer {
            Some(p) => p.depuncture(llrs).unwrap(),
            None => llrs.to_vec(),
        };
        match self.decoder.decode(&full, max_iter as usize) {
            Ok(o) => (o.iterations as i32, o.codeword),
            Err(o) => (-1, o.codeword),
        }
    }
}

/// LLRs for a transmitted (punctured) word with noise and a sprinkling of
/// special values.
/// The Aminstar floating point arithmetic panics on NaN messages (which arise
/// from infinite or overflowing LLRs), in the Rust decoder itself; such inputs
/// are kept away from it.
fn tolerates_nonfinite(implementation: &str) -> bool {
    !implementation.contains("Aminstarf")
}

fn noisy_llrs(
    word: &[u8],
    sigma: f64,
    specials: bool,
    nonfinite: bool,
    rng: &mut Rng,
) -> Vec<f64> {
    word.iter()
        .map(|&b| {
            let s = if b == 0 { 1.0 } else { -1.0 };
            let y = s + sigma * rng.gauss();
            let llr = 2.0 * y / (sigma * sigma).max(0.05);
            if specials {
                match rng.below(40) {
                    0 => 0.0,
                    1 => -0.0,
                    2 if nonfinite => f64::INFINITY * s,
                    3 => 1e-300 * s,
                    4 if nonfinite => 1e300 * s,
                    5 => f64::MIN_POSITIVE,
                    6 => -llr,
                    _ => llr,
                }
            } else {
                llr
            }
        })
        .collect()
}

/// Drives one C handle and one Rust reference through the same sequence of
/// calls and compares every result.
fn compare_sequence(
    c: &mut CDecoder,
    reference: &mut Reference,
    n: usize,
    transmitted: &[u8],
    calls: usize,
    nonfinite: bool,
    rng: &mut Rng,
) {
    for call in 0..calls {
        let sigma = [0.3, 0.6, 0.9, 1.3][rng.below(4)];
        let llrs = noisy_llrs(transmitted, sigma, call % 3 == 2, nonfinite, rng);
        let max_iter = [0u32, 1, 2, 5, 20, 50][rng.below(6)];
        let out_len = match rng.below(5) {
            0 => 0,
            1 => n,
            2 => 1,
            _ => rng.below(n + 1),
        };
        if rng.below(2) == 0 {
            let (want_ret, want_word) = reference.decode(&llrs, max_iter);
            let (ret, out) = c.decode_f64(out_len, &llrs, max_iter);
            assert_eq!(ret, want_ret, "f64 return value (call {call})");
            assert_eq!(out, &want_word[..out_len], "f64 output (call {call})");
        } else {
            let llrs32: Vec<f32> = llrs.iter().map(|&x| x as f32).collect();
            let widened: Vec<f64> = llrs32.iter().map(|&x| x as f64).collect();
            let (want_ret, want_word) = reference.decode(&widened, max_iter);
            let (ret, out) = c.decode_f32(out_len, &llrs32, max_iter);
            assert_eq!(ret, want_ret, "f32 return value (call {call})");
            assert_eq!(out, &want_word[..out_len], "f32 output (call {call})");
        }
        if rng.below(3) == 0 {
            clean_probe(c, reference, transmitted);
        }
    }
}

/// One more matched call with clean LLRs.
fn clean_probe(c: &mut CDecoder, reference: &mut Reference, transmitted: &[u8]) {
    let llrs: Vec<f64> = transmitted
        .iter()
        .map(|&b| if b == 0 { 4.0 } else { -4.0 })
        .collect();
    let (want_ret, want_word) = reference.decode(&llrs, 10);
    let (ret, out) = c.decode_f64(want_word.len(), &llrs, 10);
    assert_eq!(ret, want_ret);
    assert_eq!(out, want_word);
}

/// Encodes `message` with an unpunctured C encoder and checks, against the
/// parity check matrix itself, that the result is *the* systematic codeword
/// (the last columns of H are invertible, so it is unique and hence equal to
/// what `ldpc_toolbox::encoder::Encoder::encode` returns).
fn full_codeword(enc: &mut CEncoder, h: &SparseMatrix, message: &[u8]) -> Vec<u8> {
    let n = h.num_cols();
    let k = n - h.num_rows();
    assert_eq!(message.len(), k);
    let word = enc.encode(n, message);
    for (j, (&w, &m)) in word.iter().zip(message.iter()).enumerate() {
        assert_eq!(w, u8::from(m == 1), "systematic bit {j}");
    }
    assert!(word.iter().all(|&b| b <= 1));
    assert!(syndrome_is_zero(h, &word), "not a codeword");
    word
}

fn random_message(k: usize, rng: &mut Rng) -> Vec<u8> {
    (0..k)
        .map(|_| match rng.below(16) {
            0 => 2,
            1 => 255,
            2 => 0x81,
            x => (x & 1) as u8,
        })
        .collect()
}

// ---------------------------------------------------------------------------
// Tests shared by all demonstrations
// ---------------------------------------------------------------------------

const PATTERNS_24: &[&str] = &["", "1", "1,1,0", "1,0,1,1", "0,1", "1,1,1,1,1,1,1,0", "0,0,1"];

#[test]
fn decoder_matches_rust_decoder_all_implementations() {
    with_timeout(600, || {
        let mut rng = Rng::new(1);
        let matrices = [staircase_h(12, 12, &mut rng), dense_h(10, 14, &mut rng)];
        for (mi, h) in matrices.iter().enumerate() {
            let n = h.num_cols();
            let k = n - h.num_rows();
            let alist = if mi == 0 { h.alist() } else { h.alist_no_padding() };
            let file = TempFile::new("dec", alist.as_bytes());
            let mut plain_encoder = CEncoder::from_text(alist.as_bytes(), b"").unwrap();
            for (ii, implementation) in IMPLEMENTATIONS.iter().enumerate() {
                for (pi, pattern_text) in PATTERNS_24.iter().enumerate() {
                    let pattern = parse_pattern(pattern_text);
                    let message = random_message(k, &mut rng);
                    let word = full_codeword(&mut plain_encoder, h, &message);
                    let transmitted = puncture_ref(&pattern, &word);
                    // alternate between the two constructors
                    let mut c = if (ii + pi) % 2 == 0 {
                        CDecoder::from_text(
                            alist.as_bytes(),
                            implementation.as_bytes(),
                            pattern_text.as_bytes(),
                        )
                    } else {
                        CDecoder::from_file(
                            &file.path_bytes(),
                            implementation.as_bytes(),
                            pattern_text.as_bytes(),
                        )
                    }
                    .expect("valid arguments must give a handle");
                    let mut reference = Reference::new(h, implementation, &pattern);
                    compare_sequence(
                        &mut c,
                        &mut reference,
                        n,
                        &transmitted,
                        5,
                        tolerates_nonfinite(implementation),
                        &mut rng,
                    );
                }
            }
        }
    });
}

#[test]
fn decoder_repeated_calls_are_independent() {
    // For max_iterations >= 1 a call on a used handle gives what a brand new
    // Rust decoder gives for the same LLRs, whatever came before.
    with_timeout(600, || {
        let mut rng = Rng::new(2);
        let h = staircase_h(15, 15, &mut rng);
        let n = h.num_cols();
        let alist = h.alist();
        for implementation in ["Phif64", "Minstarapproxi8", "HLAminstarf32", "HLTanhf64", "Aminstari8Jones"] {
            for pattern_text in ["", "1,1,0", "1,0,1,1,1,1"] {
                let pattern = parse_pattern(pattern_text);
                let mut c = CDecoder::from_text(
                    alist.as_bytes(),
                    implementation.as_bytes(),
                    pattern_text.as_bytes(),
                )
                .unwrap();
                let zero_tx = puncture_ref(&pattern, &vec![0u8; n]);
                let mut history: Vec<(Vec<f64>, u32, i32, Vec<u8>)> = Vec::new();
                for call in 0..12 {
                    let llrs = noisy_llrs(
                        &zero_tx,
                        0.8,
                        call % 2 == 1,
                        tolerates_nonfinite(implementation),
                        &mut rng,
                    );
                    let max_iter = [1u32, 3, 10, 30][rng.below(4)];
                    let (want_ret, want_word) =
                        Reference::new(&h, implementation, &pattern).decode(&llrs, max_iter);
                    let (ret, out) = c.decode_f64(n, &llrs, max_iter);
                    assert_eq!(ret, want_ret);
                    assert_eq!(out, want_word);
                    history.push((llrs, max_iter, ret, out));
                }
                // replay in reverse order on the same handle, as f64 again
                for (llrs, max_iter, ret, out) in history.iter().rev() {
                    let (r, o) = c.decode_f64(n, llrs, *max_iter);
                    assert_eq!((&r, &o), (ret, out));
                }
            }
        }
    });
}

#[test]
fn decoder_special_llr_values() {
    with_timeout(600, || {
        let mut rng = Rng::new(3);
        let h = dense_h(8, 16, &mut rng);
        let n = h.num_cols();
        let alist = h.alist();
        let specials64 = [
            0.0,
            -0.0,
            f64::INFINITY,
            f64::NEG_INFINITY,
            f64::NAN,
            f64::MAX,
            f64::MIN,
            f64::MIN_POSITIVE,
            -f64::MIN_POSITIVE,
            5e-324,
            1.0000000000000002,
            3.4028235677973366e38, // just above f32::MAX
        ];
        let specials32 = [
            0.0f32,
            -0.0,
            f32::INFINITY,
            f32::NEG_INFINITY,
            f32::NAN,
            f32::MAX,
            f32::MIN,
            f32::MIN_POSITIVE,
            1e-45,
            -1e-45,
            0.1,
            16777217.0,
        ];
        for implementation in IMPLEMENTATIONS {
            let nonfinite = tolerates_nonfinite(implementation);
            for pattern_text in ["", "1,1,0", "0,1,1,0"] {
                let pattern = parse_pattern(pattern_text);
                let tx_len = puncture_ref(&pattern, &vec![0u8; n]).len();
                let mut c = CDecoder::from_text(
                    alist.as_bytes(),
                    implementation.as_bytes(),
                    pattern_text.as_bytes(),
                )
                .unwrap();
                let mut reference = Reference::new(&h, implementation, &pattern);
                for round in 0..6 {
                    let llrs: Vec<f64> = (0..tx_len)
                        .map(|_| {
                            if rng.below(3) == 0 {
                                let x = specials64[rng.below(specials64.len())];
                                if nonfinite || x.abs() < 1e30 { x } else { 0.5 }
                            } else {
                                3.0 * rng.gauss()
                            }
                        })
                        .collect();
                    let (want_ret, want_word) = reference.decode(&llrs, 7);
                    let (ret, out) = c.decode_f64(n - round, &llrs, 7);
                    assert_eq!(ret, want_ret);
                    assert_eq!(out, &want_word[..n - round]);

                    let llrs32: Vec<f32> = (0..tx_len)
                        .map(|_| {
                            if rng.below(3) == 0 {
                                let x = specials32[rng.below(specials32.len())];
                                if nonfinite || x.abs() < 1e30 { x } else { -0.5 }
                            } else {
                                (3.0 * rng.gauss()) as f32
                            }
                        })
                        .collect();
                    let widened: Vec<f64> = llrs32.iter().map(|&x| f64::from(x)).collect();
                    let (want_ret, want_word) = reference.decode(&widened, 7);
                    let (ret, out) = c.decode_f32(n - round, &llrs32, 7);
                    assert_eq!(ret, want_ret);
                    assert_eq!(out, &want_word[..n - round]);
                }
            }
        }
    });
}

#[test]
fn encoder_matches_rust_encoder() {
    with_timeout(600, || {
        let mut rng = Rng::new(4);
        let mut cases: Vec<(SparseMatrix, Vec<&str>)> = Vec::new();
        cases.push((staircase_h(12, 12, &mut rng), PATTERNS_24.to_vec()));
        cases.push((dense_h(10, 14, &mut rng), PATTERNS_24.to_vec()));
        cases.push((staircase_h(3, 2, &mut rng), vec!["", "1", "1,0,1,1,0", "0,0,0,0,1", "0"]));
        cases.push((dense_h(3, 1, &mut rng), vec!["", "1,0", "0,1", "1,1,0,0"]));
        cases.push((staircase_h(1, 1, &mut rng), vec!["", "1,0", "0,1", "0,0"]));
        cases.push((dense_h(30, 60, &mut rng), vec!["", "1,1,0", "1,0,1,0,1,0,1,0,1"]));
        cases.push((staircase_h(64, 65, &mut rng), vec!["", "1,1,0", "0,1,1"]));
        for (ci, (h, patterns)) in cases.iter().enumerate() {
            let n = h.num_cols();
            let k = n - h.num_rows();
            let alist = if ci % 2 == 0 { h.alist() } else { h.alist_no_padding() };
            let file = TempFile::new("enc", alist.as_bytes());
            let mut plain = CEncoder::from_text(alist.as_bytes(), b"").unwrap();
            let mut handles: Vec<(Option<Vec<bool>>, CEncoder)> = patterns
                .iter()
                .enumerate()
                .map(|(pi, p)| {
                    let e = if pi % 2 == 0 {
                        CEncoder::from_text(alist.as_bytes(), p.as_bytes())
                    } else {
                        CEncoder::from_file(&file.path_bytes(), p.as_bytes())
                    }
                    .expect("valid arguments must give a handle");
                    (parse_pattern(p), e)
                })
                .collect();
            let mut messages: Vec<Vec<u8>> = vec![vec![0; k], vec![1; k], vec![2; k], vec![255; k]];
            for j in 0..k {
                // unit messages, in a scattered order
                let mut m = vec![0u8; k];
                m[(j * 7 + 3) % k] = 1;
                messages.push(m);
            }
            for _ in 0..40 {
                messages.push(random_message(k, &mut rng));
            }
            // some messages twice
            let again: Vec<Vec<u8>> = messages.iter().step_by(5).cloned().collect();
            messages.extend(again);
            for message in &messages {
                let word = full_codeword(&mut plain, h, message);
                for (pattern, handle) in handles.iter_mut() {
                    let want = puncture_ref(pattern, &word);
                    let got = handle.encode(want.len(), message);
                    assert_eq!(got, want, "punctured codeword, pattern {pattern:?}");
                }
            }
        }
    });
}

#[test]
fn encoder_is_linear_and_systematic_on_a_large_code() {
    // A code large enough that any size-dependent strategy inside the
    // wrapper takes its large-code path.
    with_timeout(600, || {
        let mut rng = Rng::new(5);
        for (h, patterns) in [
            (staircase_h(300, 300, &mut rng), ["", "1,1,0", "0,1,1,1"]),
            (dense_h(120, 180, &mut rng), ["", "1,1,0", "0,1,1,1"]),
        ] {
            let n = h.num_cols();
            let k = n - h.num_rows();
            let alist = h.alist();
            let mut plain = CEncoder::from_text(alist.as_bytes(), b"").unwrap();
            for p in patterns {
                let pattern = parse_pattern(p);
                let mut e = CEncoder::from_text(alist.as_bytes(), p.as_bytes()).unwrap();
                for round in 0..6 {
                    let message = match round {
                        0 => vec![0u8; k],
                        1 => vec![1u8; k],
                        _ => random_message(k, &mut rng),
                    };
                    let word = full_codeword(&mut plain, &h, &message);
                    let want = puncture_ref(&pattern, &word);
                    assert_eq!(e.encode(want.len(), &message), want);
                }
            }
        }
    });
}

#[test]
fn constructors_reject_bad_arguments() {
    with_timeout(600, || {
        let mut rng = Rng::new(6);
        let h = staircase_h(6, 6, &mut rng);
        let good = h.alist();
        let singular = singular_h(6, 6, &mut rng).alist();
        let good_file = TempFile::new("good", good.as_bytes());
        let singular_file = TempFile::new("singular", singular.as_bytes());

        // sanity: the good arguments work through every constructor
        assert!(CDecoder::from_text(good.as_bytes(), b"Phif64", b"").is_some());
        assert!(CDecoder::from_file(&good_file.path_bytes(), b"Phif64", b"1,0").is_some());
        assert!(CEncoder::from_text(good.as_bytes(), b"").is_some());
        assert!(CEncoder::from_file(&good_file.path_bytes(), b"1,1,0").is_some());
        // a decoder does not care about singular last columns
        assert!(CDecoder::from_text(singular.as_bytes(), b"Phif64", b"").is_some());
        assert!(CDecoder::from_file(&singular_file.path_bytes(), b"HLPhif32", b"1").is_some());
        // a pattern need not divide the codeword length, nor transmit anything,
        // for construction to succeed
        assert!(CDecoder::from_text(good.as_bytes(), b"Phif64", b"1,1,1,1,1,1,1").is_some());
        assert!(CDecoder::from_text(good.as_bytes(), b"Phif64", b"0").is_some());
        assert!(CEncoder::from_text(good.as_bytes(), b"1,1,1,1,1,1,1").is_some());
        assert!(CEncoder::from_text(good.as_bytes(), b"0,0").is_some());

        // encoder: singular last columns
        assert!(CEncoder::from_text(singular.as_bytes(), b"").is_none());
        assert!(CEncoder::from_text(singular.as_bytes(), b"1,0").is_none());
        assert!(CEncoder::from_file(&singular_file.path_bytes(), b"").is_none());

        // malformed alist text
        let mut truncated = good.clone();
        truncated.truncate(good.find('\n').unwrap() + 1);
        let few_columns: String = good.split('\n').take(4 + 5).collect::<Vec<_>>().join("\n");
        let with_line = |idx: usize, text: &str| -> Vec<u8> {
            let mut lines: Vec<String> = good.split('\n').map(String::from).collect();
            lines[idx] = text.to_string();
            lines.join("\n").into_bytes()
        };
        let bad_alists: Vec<Vec<u8>> = vec![
            b"".to_vec(),
            b"\n".to_vec(),
            b"hello".to_vec(),
            b"12".to_vec(),
            b"12 x\n".to_vec(),
            b"-3 2\n".to_vec(),
            b"3.0 2\n".to_vec(),
            truncated.clone().into_bytes(),
            few_columns.into_bytes(),
            with_line(4, "1x"),
            with_line(9, "1 7"),
            with_line(6, "2 -1"),
            with_line(0, "12"),
            with_line(0, "twelve 6"),
            // invalid UTF-8 where a number is expected
            [b"12 \xff\n".as_slice(), good.as_bytes()].concat(),
        ];
        for bad in &bad_alists {
            let shown = String::from_utf8_lossy(bad).into_owned();
            assert!(CDecoder::from_text(bad, b"Phif64", b"").is_none(), "{shown:?}");
            assert!(CEncoder::from_text(bad, b"").is_none(), "{shown:?}");
            let f = TempFile::new("bad", bad);
            assert!(CDecoder::from_file(&f.path_bytes(), b"Phif64", b"").is_none(), "{shown:?}");
            assert!(CEncoder::from_file(&f.path_bytes(), b"").is_none(), "{shown:?}");
        }

        // unknown implementation names
        for bad in [
            b"".as_slice(),
            b"phif64",
            b"Phif64 ",
            b" Phif64",
            b"Phif65",
            b"Phif64\n",
            b"HL",
            b"Phif64,Phif32",
            b"Phif64\xff",
            b"\xffPhif64",
            b"\xef\xbf\xbd",
        ] {
            assert!(CDecoder::from_text(good.as_bytes(), bad, b"").is_none(), "{bad:?}");
            assert!(CDecoder::from_file(&good_file.path_bytes(), bad, b"1").is_none(), "{bad:?}");
        }
        // every documented name is accepted
        for name in IMPLEMENTATIONS {
            assert!(CDecoder::from_text(good.as_bytes(), name.as_bytes(), b"1,0").is_some());
        }

        // malformed puncturing patterns
        for bad in [
            b"2".as_slice(),
            b",",
            b"1,",
            b",1",
            b"1,,0",
            b"1;0",
            b" 1",
            b"1 ",
            b"1, 0",
            b"1,0\n",
            b"10",
            b"01",
            b"true",
            b"1,0,x",
            b"1,0,\xff",
            b"\xff",
            b"1,0,-1",
            b"+1",
        ] {
            assert!(CDecoder::from_text(good.as_bytes(), b"Phif64", bad).is_none(), "{bad:?}");
            assert!(CDecoder::from_file(&good_file.path_bytes(), b"Phif64", bad).is_none());
            assert!(CEncoder::from_text(good.as_bytes(), bad).is_none(), "{bad:?}");
            assert!(CEncoder::from_file(&good_file.path_bytes(), bad).is_none(), "{bad:?}");
        }

        // unreadable files
        let missing = temp_path("missing");
        let missing = missing.to_str().unwrap().as_bytes().to_vec();
        let dir = std::env::temp_dir();
        let dir = dir.to_str().unwrap().as_bytes().to_vec();
        for path in [missing.as_slice(), dir.as_slice(), b"", b"\xff\xfe/nowhere"] {
            assert!(CDecoder::from_file(path, b"Phif64", b"").is_none());
            assert!(CEncoder::from_file(path, b"").is_none());
        }
        // the alist *text* is not a path and a path is not alist text
        assert!(CDecoder::from_file(good.as_bytes(), b"Phif64", b"").is_none());
        assert!(CDecoder::from_text(&good_file.path_bytes(), b"Phif64", b"").is_none());
        assert!(CEncoder::from_file(good.as_bytes(), b"").is_none());
        assert!(CEncoder::from_text(&good_file.path_bytes(), b"").is_none());
        // a file that is not UTF-8 cannot be read as text
        let not_utf8 = TempFile::new("notutf8", &[good.as_bytes(), b"\xff\xfe\n".as_slice()].concat());
        assert!(CDecoder::from_file(&not_utf8.path_bytes(), b"Phif64", b"").is_none());
        assert!(CEncoder::from_file(&not_utf8.path_bytes(), b"").is_none());

        // several errors at once
        assert!(CDecoder::from_text(b"junk", b"junk", b"junk").is_none());
        assert!(CDecoder::from_file(&missing, b"junk", b"junk").is_none());
        assert!(CEncoder::from_text(b"junk", b"junk").is_none());
        assert!(CEncoder::from_text(singular.as_bytes(), b"junk").is_none());
    });
}

#[test]
fn alist_text_variants_give_the_same_objects() {
    with_timeout(600, || {
        let mut rng = Rng::new(7);
        let h = staircase_h(8, 8, &mut rng);
        let n = h.num_cols();
        let k = n - h.num_rows();
        let base = h.alist();
        let variants: Vec<Vec<u8>> = vec![
            base.clone().into_bytes(),
            h.alist_no_padding().into_bytes(),
            base.replace('\n', "\r\n").into_bytes(),
            base.replace(' ', "  \t").into_bytes(),
            // the row section is not read by the parser: junk there is harmless
            {
                let lines: Vec<&str> = base.split('\n').collect();
                let mut v = lines[..4 + n].join("\n").into_bytes();
                v.extend_from_slice(b"\nthis is \xff\xfe not read\n");
                v
            },
        ];
        let mut reference_enc = CEncoder::from_text(base.as_bytes(), b"1,1,0,1").unwrap();
        let pattern = parse_pattern("1,1,0,1");
        for v in &variants {
            let mut e = CEncoder::from_text(v, b"1,1,0,1").unwrap();
            let mut d = CDecoder::from_text(v, b"HLMinstarapproxf64", b"1,1,0,1").unwrap();
            let mut r = Reference::new(&h, "HLMinstarapproxf64", &pattern);
            for _ in 0..5 {
                let m = random_message(k, &mut rng);
                let want = reference_enc.encode(12, &m);
                assert_eq!(e.encode(12, &m), want);
                compare_sequence(&mut d, &mut r, n, &want, 2, true, &mut rng);
            }
        }
    });
}

#[test]
fn handles_do_not_interfere_and_can_move_between_threads() {
    with_timeout(600, || {
        let mut rng = Rng::new(8);
        let h1 = staircase_h(10, 10, &mut rng);
        let h2 = dense_h(6, 14, &mut rng);
        let mut workers = Vec::new();
        for t in 0..4u64 {
            let (h, name, pat) = match t {
                0 => (h1.clone(), "Phif64", "1,1,0,1"),
                1 => (h2.clone(), "HLAminstari8", "1,0"),
                2 => (h1.clone(), "Minstarapproxi8Jones", ""),
                _ => (h2.clone(), "Tanhf32", "0,1,1,1"),
            };
            let alist = h.alist();
            // built on this thread, used and destroyed on another one
            let dec = CDecoder::from_text(alist.as_bytes(), name.as_bytes(), pat.as_bytes()).unwrap();
            let enc = CEncoder::from_text(alist.as_bytes(), pat.as_bytes()).unwrap();
            let plain = CEncoder::from_text(alist.as_bytes(), b"").unwrap();
            workers.push(std::thread::spawn(move || {
                let (mut dec, mut enc, mut plain) = (dec, enc, plain);
                let mut rng = Rng::new(100 + t);
                let pattern = parse_pattern(pat);
                let n = h.num_cols();
                let k = n - h.num_rows();
                let mut reference = Reference::new(&h, name, &pattern);
                for _ in 0..25 {
                    let m = random_message(k, &mut rng);
                    let word = full_codeword(&mut plain, &h, &m);
                    let tx = puncture_ref(&pattern, &word);
                    assert_eq!(enc.encode(tx.len(), &m), tx);
                    compare_sequence(&mut dec, &mut reference, n, &tx, 2, true, &mut rng);
                }
            }));
        }
        for w in workers {
            w.join().unwrap();
        }

        // many short-lived handles, some never used
        let alist = h1.alist();
        for i in 0..200 {
            let d = CDecoder::from_text(alist.as_bytes(), IMPLEMENTATIONS[i % 36].as_bytes(), b"1,0");
            let e = CEncoder::from_text(alist.as_bytes(), b"1,0");
            assert!(d.is_some() && e.is_some());
            if i % 3 == 0 {
                let mut d = d.unwrap();
                let llrs = vec![1.5f32; 10];
                let (want_ret, want_word) =
                    Reference::new(&h1, IMPLEMENTATIONS[i % 36], &parse_pattern("1,0"))
                        .decode(&vec![1.5f64; 10], 3);
                let (ret, out) = d.decode_f32(20, &llrs, 3);
                assert_eq!(ret, want_ret);
                assert_eq!(out, want_word);
            }
        }
    });
}

#[test]
fn depuncturing_shapes() {
    // Patterns with block size one, a single transmitted block, everything
    // transmitted, long runs: against Puncturer::depuncture + the Rust decoder.
    with_timeout(600, || {
        let mut rng = Rng::new(9);
        let h = staircase_h(12, 12, &mut rng);
        let n = h.num_cols();
        let k = n - h.num_rows();
        let alist = h.alist();
        let mut plain = CEncoder::from_text(alist.as_bytes(), b"").unwrap();
        let alternate: Vec<&str> = (0..n).map(|j| if j % 2 == 0 { "1" } else { "0" }).collect();
        let all_but_first: Vec<&str> = (0..n).map(|j| if j == 0 { "0" } else { "1" }).collect();
        let only_last: Vec<&str> = (0..n).map(|j| if j == n - 1 { "1" } else { "0" }).collect();
        let patterns: Vec<String> = vec![
            alternate.join(","),
            all_but_first.join(","),
            only_last.join(","),
            vec!["1"; n].join(","),
            "1,1".to_string(),
            "1,0".to_string(),
            "0,1".to_string(),
            "0,0,0,0,0,0,0,1".to_string(),
            "1,0,0,1,1,0,0,1,1,1,0,1".to_string(),
        ];
        for implementation in ["Phif64", "Tanhf32", "Minstarapproxi8", "HLAminstarf64", "HLPhif32"] {
            for pattern_text in &patterns {
                let pattern = parse_pattern(pattern_text);
                let mut enc = CEncoder::from_text(alist.as_bytes(), pattern_text.as_bytes()).unwrap();
                let mut c = CDecoder::from_text(
                    alist.as_bytes(),
                    implementation.as_bytes(),
                    pattern_text.as_bytes(),
                )
                .unwrap();
                let mut reference = Reference::new(&h, implementation, &pattern);
                for _ in 0..3 {
                    let message = random_message(k, &mut rng);
                    let word = full_codeword(&mut plain, &h, &message);
                    let tx = puncture_ref(&pattern, &word);
                    assert_eq!(enc.encode(tx.len(), &message), tx);
                    compare_sequence(
                        &mut c,
                        &mut reference,
                        n,
                        &tx,
                        3,
                        tolerates_nonfinite(implementation),
                        &mut rng,
                    );
                }
            }
        }
    });
}

#[test]
fn larger_code_decoding() {
    with_timeout(600, || {
        let mut rng = Rng::new(10);
        let h = staircase_h(180, 180, &mut rng);
        let n = h.num_cols();
        let k = n - h.num_rows();
        let alist = h.alist();
        let file = TempFile::new("large", alist.as_bytes());
        let mut plain = CEncoder::from_file(&file.path_bytes(), b"").unwrap();
        for (implementation, pattern_text) in [
            ("Phif64", ""),
            ("HLMinstarapproxf32", "1,1,1,0"),
            ("Aminstari8", "1,0,1,1,1,1"),
            ("HLAminstari8PartialHardLimit", "0,1,1,1,1,1,1,1,1"),
        ] {
            let pattern = parse_pattern(pattern_text);
            let mut c = CDecoder::from_file(
                &file.path_bytes(),
                implementation.as_bytes(),
                pattern_text.as_bytes(),
            )
            .unwrap();
            let mut reference = Reference::new(&h, implementation, &pattern);
            for _ in 0..3 {
                let message = random_message(k, &mut rng);
                let word = full_codeword(&mut plain, &h, &message);
                let tx = puncture_ref(&pattern, &word);
                compare_sequence(&mut c, &mut reference, n, &tx, 4, true, &mut rng);
            }
        }
    });
}

// ---------------------------------------------------------------------------
// Decoder handles: lifetimes, many at once, shared between threads in turns
// ---------------------------------------------------------------------------

#[test]
fn many_decoder_handles_alive_at_once() {
    with_timeout(900, || {
        let mut rng = Rng::new(21);
        let hs = [staircase_h(8, 8, &mut rng), dense_h(6, 10, &mut rng)];
        let patterns = ["", "1,0", "1,1,0,1", "0,1,1,1,1,1,1,1"];
        let mut live: Vec<(CDecoder, Reference, usize, Vec<u8>)> = Vec::new();
        for i in 0..240 {
            let h = &hs[i % 2];
            let implementation = IMPLEMENTATIONS[(i * 7) % IMPLEMENTATIONS.len()];
            let pattern_text = patterns[(i / 2) % patterns.len()];
            let pattern = parse_pattern(pattern_text);
            let c = CDecoder::from_text(
                h.alist().as_bytes(),
                implementation.as_bytes(),
                pattern_text.as_bytes(),
            )
            .unwrap();
            let tx = puncture_ref(&pattern, &vec![0u8; 16]);
            live.push((c, Reference::new(h, implementation, &pattern), 16, tx));
        }
        // round robin, with handles being retired (in no particular order) as we go
        let mut round = 0;
        while !live.is_empty() {
            for (c, reference, n, tx) in live.iter_mut() {
                compare_sequence(c, reference, *n, tx, 1, false, &mut rng);
            }
            for _ in 0..40.min(live.len()) {
                let victim = rng.below(live.len());
                drop(live.swap_remove(victim));
            }
            round += 1;
            assert!(round < 100);
        }
    });
}

#[test]
fn decoder_handle_used_by_several_threads_in_turns() {
    use std::sync::{Arc, Mutex};
    with_timeout(900, || {
        let mut rng = Rng::new(22);
        let h = staircase_h(10, 14, &mut rng);
        let n = h.num_cols();
        for (implementation, pattern_text) in
            [("HLPhif64", "1,1,0,1"), ("Minstarapproxi8Jones", ""), ("Aminstarf32", "1,0,1")]
        {
            let pattern = parse_pattern(pattern_text);
            let tx = puncture_ref(&pattern, &vec![0u8; n]);
            let c = CDecoder::from_text(
                h.alist().as_bytes(),
                implementation.as_bytes(),
                pattern_text.as_bytes(),
            )
            .unwrap();
            let shared = Arc::new(Mutex::new((c, Reference::new(&h, implementation, &pattern))));
            let workers: Vec<_> = (0..6u64)
                .map(|t| {
                    let shared = Arc::clone(&shared);
                    let tx = tx.clone();
                    std::thread::spawn(move || {
                        let mut rng = Rng::new(300 + t);
                        for _ in 0..20 {
                            let mut guard = shared.lock().unwrap();
                            let (c, reference) = &mut *guard;
                            compare_sequence(c, reference, n, &tx, 1, false, &mut rng);
                            drop(guard);
                            std::thread::yield_now();
                        }
                    })
                })
                .collect();
            for w in workers {
                w.join().unwrap();
            }
            // the last owner destroys the handle here, on yet another thread
            let (c, _) = Arc::try_unwrap(shared).ok().unwrap().into_inner().unwrap();
            std::thread::spawn(move || drop(c)).join().unwrap();
        }
    });
}

#[test]
fn constructor_churn() {
    // Lots of constructions, most of them failing, none of them used: this
    // must neither exhaust any resource nor disturb a handle that is in use.
    with_timeout(900, || {
        let mut rng = Rng::new(23);
        let h = staircase_h(6, 6, &mut rng);
        let alist = h.alist();
        let file = TempFile::new("churn", alist.as_bytes());
        let missing = temp_path("churn_missing");
        let missing = missing.to_str().unwrap().as_bytes().to_vec();
        let pattern = parse_pattern("1,1,0");
        let mut busy = CDecoder::from_file(&file.path_bytes(), b"Tanhf64", b"1,1,0").unwrap();
        let mut reference = Reference::new(&h, "Tanhf64", &pattern);
        let tx = puncture_ref(&pattern, &vec![0u8; 12]);
        for i in 0..1500 {
            let made = match i % 6 {
                0 => CDecoder::from_text(alist.as_bytes(), b"Phif64", b"1,0"),
                1 => CDecoder::from_text(alist.as_bytes(), b"nope", b"1,0"),
                2 => CDecoder::from_text(alist.as_bytes(), b"Phif64", b"1,0,"),
                3 => CDecoder::from_text(b"6 x", b"Phif64", b""),
                4 => CDecoder::from_file(&missing, b"Phif64", b""),
                _ => CDecoder::from_file(&file.path_bytes(), b"HLAminstari8", b""),
            };
            assert_eq!(made.is_some(), i % 6 == 0 || i % 6 == 5, "case {}", i % 6);
            if i % 50 == 0 {
                compare_sequence(&mut busy, &mut reference, 12, &tx, 1, true, &mut rng);
            }
        }
    });
}
