// Demonstration for rewrite 1 (parallel seed search of the MacKay-Neal
// construction).
//
// Checks, through the public API only, that `Config::search`
//  * returns a seed inside `start_seed..start_seed + max_tries`,
//  * returns exactly the matrix that `Config::run` gives for that seed
//    (compared with `==` on `SparseMatrix`, which is sensitive to the internal
//    order of the entries, and through the alist),
//  * returns `None` only if every seed in the range fails,
//  * returns matrices that honour the configuration,
// for many configurations (always succeeding, never succeeding, and succeeding
// for some seeds only), many range lengths (0, 1, around the number of
// workers, large), ranges that end at u64::MAX, repeated calls and concurrent
// calls from several threads.

use ldpc_toolbox::mackay_neal::{Config, Error, FillPolicy};
use ldpc_toolbox::sparse::SparseMatrix;
use std::sync::mpsc;
use std::time::Duration;

const TIMEOUT: Duration = Duration::from_secs(600);

fn with_timeout<F: FnOnce() + Send + 'static>(f: F) {
    let (tx, rx) = mpsc::channel();
    let handle = std::thread::spawn(move || {
        f();
        let _ = tx.send(());
    });
    match rx.recv_timeout(TIMEOUT) {
        Ok(()) => handle.join().unwrap(),
        Err(mpsc::RecvTimeoutError::Disconnected) => {
            // the closure panicked: propagate
            if let Err(e) = handle.join() {
                std::panic::resume_unwind(e);
            }
            panic!("worker ended without reporting");
        }
        Err(mpsc::RecvTimeoutError::Timeout) => panic!("timed out"),
    }
}

fn check_matrix(conf: &Config, h: &SparseMatrix) {
    assert_eq!(h.num_rows(), conf.nrows);
    assert_eq!(h.num_cols(), conf.ncols);
    for c in 0..conf.ncols {
        assert_eq!(h.col_weight(c), conf.wc, "column weight, {conf:?}");
        let mut rows: Vec<usize> = h.iter_col(c).copied().collect();
        rows.sort_unstable();
        rows.dedup();
        assert_eq!(rows.len(), conf.wc);
    }
    for r in 0..conf.nrows {
        assert!(h.row_weight(r) <= conf.wr, "row weight, {conf:?}");
    }
    if let Some(g) = conf.min_girth {
        if let Some(girth) = h.girth() {
            assert!(girth >= g, "girth {girth} < {g}, {conf:?}");
        }
    } else if conf.fill_policy == FillPolicy::Uniform && conf.nrows > 0 {
        let ws: Vec<usize> = (0..conf.nrows).map(|r| h.row_weight(r)).collect();
        let min = ws.iter().min().unwrap();
        let max = ws.iter().max().unwrap();
        assert!(max - min <= 1, "row weights not uniform, {conf:?}");
    }
}

fn check_search(conf: &Config, start: u64, tries: u64) -> Option<u64> {
    let result = conf.search(start, tries);
    match result {
        Some((seed, h)) => {
            assert!(seed >= start, "seed {seed} below start {start}");
            assert!(
                seed - start < tries,
                "seed {seed} outside {start}..{start}+{tries}"
            );
            let expected = conf
                .run(seed)
                .expect("search returned a seed for which run() fails");
            assert!(h == expected, "matrix differs from run({seed}), {conf:?}");
            assert_eq!(h.alist(), expected.alist());
            check_matrix(conf, &h);
            Some(seed)
        }
        None => {
            for k in 0..tries {
                let seed = start + k;
                assert!(
                    conf.run(seed).is_err(),
                    "search({start}, {tries}) returned None but seed {seed} works, {conf:?}"
                );
            }
            None
        }
    }
}

fn base(nrows: usize, ncols: usize, wr: usize, wc: usize, policy: FillPolicy) -> Config {
    Config {
        nrows,
        ncols,
        wr,
        wc,
        backtrack_cols: 0,
        backtrack_trials: 0,
        min_girth: None,
        girth_trials: 0,
        fill_policy: policy,
    }
}

fn configs() -> Vec<Config> {
    let mut v = Vec::new();
    // always succeed
    v.push(base(4, 8, 4, 2, FillPolicy::Uniform));
    v.push(base(10, 20, 6, 3, FillPolicy::Uniform));
    v.push(base(5, 7, 7, 5, FillPolicy::Random));
    // degenerate sizes (always succeed)
    v.push(base(0, 0, 0, 0, FillPolicy::Random));
    v.push(base(3, 0, 2, 2, FillPolicy::Uniform));
    v.push(base(3, 5, 0, 0, FillPolicy::Uniform));
    v.push(base(0, 4, 1, 0, FillPolicy::Random));
    // never succeed
    v.push(base(4, 8, 3, 2, FillPolicy::Uniform));
    v.push(base(4, 8, 3, 2, FillPolicy::Random));
    v.push(base(0, 4, 1, 1, FillPolicy::Random));
    v.push(base(3, 2, 5, 4, FillPolicy::Uniform));
    // succeed for some seeds only
    v.push(base(6, 12, 4, 2, FillPolicy::Random));
    v.push(base(8, 16, 6, 3, FillPolicy::Random));
    let mut c = base(6, 12, 4, 2, FillPolicy::Random);
    c.backtrack_cols = 2;
    c.backtrack_trials = 2;
    v.push(c);
    let mut c = base(20, 30, 5, 3, FillPolicy::Uniform);
    c.min_girth = Some(6);
    c.girth_trials = 100;
    v.push(c);
    let mut c = base(12, 12, 4, 3, FillPolicy::Uniform);
    c.min_girth = Some(6);
    c.girth_trials = 6;
    c.backtrack_cols = 1;
    c.backtrack_trials = 3;
    v.push(c);
    let mut c = base(20, 30, 3, 2, FillPolicy::Random);
    c.min_girth = Some(8);
    c.girth_trials = 10;
    c.backtrack_cols = 3;
    c.backtrack_trials = 5;
    v.push(c);
    // succeeds rarely
    let mut c = base(24, 32, 4, 3, FillPolicy::Uniform);
    c.min_girth = Some(6);
    c.girth_trials = 150;
    v.push(c);
    v
}

#[test]
fn search_contract_over_ranges() {
    with_timeout(|| {
        let tries = [0u64, 1, 2, 3, 5, 7, 8, 9, 15, 16, 17, 31, 64, 200];
        let starts = [0u64, 1, 187, 1 << 32, u64::MAX - 1000];
        for conf in configs() {
            let saved = conf.clone();
            for &t in &tries {
                for &s in &starts {
                    check_search(&conf, s, t);
                }
            }
            assert_eq!(conf, saved);
        }
    });
}

#[test]
fn search_empty_range_is_none() {
    with_timeout(|| {
        for conf in configs() {
            for s in [0u64, 5, u64::MAX] {
                assert!(conf.search(s, 0).is_none());
            }
        }
    });
}

#[test]
fn search_single_seed_is_that_seed() {
    with_timeout(|| {
        for conf in configs() {
            for s in 0..60u64 {
                let direct = conf.run(s);
                match conf.search(s, 1) {
                    Some((seed, h)) => {
                        assert_eq!(seed, s);
                        assert!(h == direct.unwrap());
                    }
                    None => assert!(direct.is_err()),
                }
            }
        }
    });
}

#[test]
fn search_range_touching_u64_max() {
    with_timeout(|| {
        for conf in configs() {
            for len in [1u64, 2, 5, 8, 9, 23] {
                // start + len == u64::MAX: the last seed tried is u64::MAX - 1
                let start = u64::MAX - len;
                check_search(&conf, start, len);
            }
        }
    });
}

#[test]
fn search_finds_the_only_good_seed() {
    with_timeout(|| {
        // find, for each "sometimes" configuration, windows that contain
        // exactly one good seed, at every position of the window
        for conf in configs() {
            let ok: Vec<bool> = (0..400u64).map(|s| conf.run(s).is_ok()).collect();
            let total = ok.iter().filter(|&&b| b).count();
            if total == 0 || total == ok.len() {
                continue;
            }
            let mut tested = 0;
            for start in 0..ok.len() {
                for len in 1..=std::cmp::min(40, ok.len() - start) {
                    let good: Vec<usize> = (start..start + len).filter(|&s| ok[s]).collect();
                    if good.len() == 1 && tested < 300 && (start + len) % 3 == 0 {
                        tested += 1;
                        let (seed, h) = conf
                            .search(start as u64, len as u64)
                            .expect("the good seed was not found");
                        assert_eq!(seed, good[0] as u64);
                        assert!(h == conf.run(seed).unwrap());
                    }
                    if good.is_empty() && (start + len) % 7 == 0 {
                        assert!(conf.search(start as u64, len as u64).is_none());
                    }
                }
            }
        }
    });
}

#[test]
fn search_repeated_and_concurrent() {
    with_timeout(|| {
        let confs = configs();
        // repeated calls: every answer must satisfy the contract (the seed
        // itself may differ from call to call)
        for conf in &confs {
            for _ in 0..25 {
                check_search(conf, 3, 40);
            }
        }
        // concurrent calls from several threads
        let handles: Vec<_> = (0..6u64)
            .map(|k| {
                let confs = confs.clone();
                std::thread::spawn(move || {
                    let mut found = 0;
                    for conf in &confs {
                        for rep in 0..4u64 {
                            if check_search(conf, 100 * k + rep, 10 + 7 * k).is_some() {
                                found += 1;
                            }
                        }
                    }
                    found
                })
            })
            .collect();
        for h in handles {
            assert!(h.join().unwrap() > 0);
        }
    });
}

#[test]
fn search_agrees_with_sequential_scan_on_existence() {
    with_timeout(|| {
        for conf in configs() {
            for start in (0..300u64).step_by(37) {
                for len in [4u64, 11, 50] {
                    let any = (start..start + len).any(|s| conf.run(s).is_ok());
                    assert_eq!(conf.search(start, len).is_some(), any, "{conf:?}");
                }
            }
        }
    });
}

#[test]
fn run_is_reproducible_and_seed_dependent() {
    with_timeout(|| {
        for conf in configs() {
            let mut distinct = std::collections::HashSet::new();
            let mut ok = 0;
            for s in 0..40u64 {
                let a = conf.run(s);
                let b = conf.run(s);
                match (&a, &b) {
                    (Ok(x), Ok(y)) => {
                        assert!(x == y);
                        check_matrix(&conf, x);
                        distinct.insert(x.alist());
                        ok += 1;
                    }
                    (Err(x), Err(y)) => {
                        assert_eq!(x, y);
                        assert!(matches!(
                            x,
                            Error::NoMoreBacktrack | Error::NoMoreTrials | Error::NoAvailRows
                        ));
                    }
                    _ => panic!("run({s}) not reproducible for {conf:?}"),
                }
            }
            // different seeds explore different choices (when there is any
            // choice to make)
            if ok >= 10 && conf.wc > 0 && conf.wc < conf.nrows && conf.ncols > 1 {
                assert!(distinct.len() > 1, "all seeds give the same matrix, {conf:?}");
            }
        }
    });
}

#[test]
fn known_small_matrix() {
    // the literal from the crate's own unit test
    let conf = base(4, 8, 4, 2, FillPolicy::Random);
    let (seed, h) = conf.search(187, 1).unwrap();
    assert_eq!(seed, 187);
    assert_eq!(
        h.alist(),
        "8 4\n2 4\n2 2 2 2 2 2 2 2\n4 4 4 4\n1 3\n2 4\n2 3\n1 4\n1 4\n1 4\n2 3\n2 3\n1 4 5 6\n2 3 7 8\n1 3 7 8\n2 4 5 6\n"
    );
}
