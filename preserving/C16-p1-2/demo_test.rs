// Demo test for change 2 (src/mackay_neal.rs: the column insertion loop is
// restructured around an internal outcome enum, backtracking removes the
// columns most recent first, row selection is split per fill policy, and the
// seed search proceeds in consecutive blocks of seeds, each searched in
// parallel).
//
// Checks the stated guarantees of the MacKay-Neal construction over a grid of
// configurations and seeds, its exact reproducibility (golden digest obtained
// with the unchanged code, including which runs fail and with which error), and
// the contract of the seed search (returned seed in range, matrix equal to what
// that seed produces, None only when every seed in range fails), with ranges
// that are empty, shorter than, equal to and much longer than one search block,
// through the library and through the command-line tool.

use ldpc_toolbox::mackay_neal::{Config, Error, FillPolicy};
use ldpc_toolbox::sparse::{Node, SparseMatrix};
use std::collections::{BTreeSet, VecDeque};
use std::process::Command;

fn fnv1a(hash: &mut u64, data: &[u8]) {
    for &b in data {
        *hash ^= b as u64;
        *hash = hash.wrapping_mul(0x100000001b3);
    }
}

const FNV_INIT: u64 = 0xcbf29ce484222325;

fn neighbours(h: &SparseMatrix, node: Node) -> Vec<Node> {
    match node {
        Node::Row(r) => h.iter_row(r).map(|&c| Node::Col(c)).collect(),
        Node::Col(c) => h.iter_col(c).map(|&r| Node::Row(r)).collect(),
    }
}

/// Independent computation of the girth (shortest cycle), not using the
/// library's BFS.
fn reference_girth(h: &SparseMatrix) -> Option<usize> {
    let index = |n: Node| match n {
        Node::Row(r) => r,
        Node::Col(c) => h.num_rows() + c,
    };
    let nodes: Vec<Node> = (0..h.num_rows())
        .map(Node::Row)
        .chain((0..h.num_cols()).map(Node::Col))
        .collect();
    let mut best: Option<usize> = None;
    for &root in &nodes {
        let mut dist: Vec<Option<usize>> = vec![None; nodes.len()];
        dist[index(root)] = Some(0);
        let mut queue = VecDeque::new();
        queue.push_back((root, None::<Node>));
        while let Some((n, parent)) = queue.pop_front() {
            let d = dist[index(n)].unwrap();
            for m in neighbours(h, n) {
                if Some(m) == parent {
                    continue;
                }
                match dist[index(m)] {
                    None => {
                        dist[index(m)] = Some(d + 1);
                        queue.push_back((m, Some(n)));
                    }
                    Some(dm) => {
                        let len = d + dm + 1;
                        if best.is_none_or(|b| len < b) {
                            best = Some(len);
                        }
                    }
                }
            }
        }
    }
    best
}

fn check_result(conf: &Config, h: &SparseMatrix) {
    assert_eq!(h.num_rows(), conf.nrows, "{conf:?}");
    assert_eq!(h.num_cols(), conf.ncols, "{conf:?}");
    for c in 0..conf.ncols {
        assert_eq!(h.col_weight(c), conf.wc, "{conf:?}");
        let distinct: BTreeSet<_> = h.iter_col(c).collect();
        assert_eq!(distinct.len(), conf.wc, "{conf:?}");
    }
    let weights: Vec<usize> = (0..conf.nrows).map(|r| h.row_weight(r)).collect();
    for &w in &weights {
        assert!(w <= conf.wr, "{conf:?}");
    }
    if let Some(g) = conf.min_girth {
        assert!(reference_girth(h).is_none_or(|x| x >= g), "{conf:?}");
    } else if conf.fill_policy == FillPolicy::Uniform && conf.nrows > 0 {
        let min = weights.iter().min().unwrap();
        let max = weights.iter().max().unwrap();
        assert!(max - min <= 1, "{conf:?}: {weights:?}");
    }
    // rows and columns describe the same set of entries
    let mut from_rows: Vec<(usize, usize)> = h.iter_all().collect();
    let mut from_cols: Vec<(usize, usize)> = (0..conf.ncols)
        .flat_map(|c| h.iter_col(c).map(move |&r| (r, c)))
        .collect();
    from_rows.sort_unstable();
    from_cols.sort_unstable();
    assert_eq!(from_rows, from_cols);
}

fn digest_result(digest: &mut u64, result: &Result<SparseMatrix, Error>) {
    match result {
        Ok(h) => {
            fnv1a(digest, b"ok");
            fnv1a(digest, h.alist().as_bytes());
            // the order of insertion is part of the result (SparseMatrix
            // equality depends on it)
            for c in 0..h.num_cols() {
                for &r in h.iter_col(c) {
                    fnv1a(digest, &(r as u32).to_le_bytes());
                }
            }
            for r in 0..h.num_rows() {
                for &c in h.iter_row(r) {
                    fnv1a(digest, &(c as u32).to_le_bytes());
                }
            }
        }
        Err(e) => {
            fnv1a(digest, b"err");
            fnv1a(digest, e.to_string().as_bytes());
        }
    }
}

#[test]
fn construction_grid() {
    let mut digest = FNV_INIT;
    let mut ok = 0;
    let mut by_error = [0usize; 4];
    let sizes = [
        // (nrows, ncols, wr, wc)
        (4, 8, 4, 2),
        (6, 12, 4, 2),
        (6, 12, 6, 3),
        (10, 20, 4, 2),
        (10, 20, 7, 3),
        (12, 16, 4, 3),
        (7, 9, 3, 2),
        (5, 10, 10, 5),
        (3, 4, 2, 2),  // impossible: more ones than the rows can hold
        (2, 5, 10, 3), // impossible: column weight exceeds the number of rows
        (4, 6, 0, 1),  // impossible: no row can take a one
        (4, 6, 3, 0),  // zero column weight
        (0, 3, 2, 0),  // no rows, zero column weight
        (0, 3, 2, 1),  // no rows
        (5, 0, 2, 2),  // no columns
    ];
    for &(nrows, ncols, wr, wc) in &sizes {
        for (backtrack_cols, backtrack_trials) in [(0, 0), (0, 3), (1, 4), (3, 10), (100, 2)] {
            for (min_girth, girth_trials) in [
                (None, 0),
                (Some(4), 0),
                (Some(6), 0),
                (Some(6), 20),
                (Some(8), 100),
            ] {
                for fill_policy in [FillPolicy::Random, FillPolicy::Uniform] {
                    let conf = Config {
                        nrows,
                        ncols,
                        wr,
                        wc,
                        backtrack_cols,
                        backtrack_trials,
                        min_girth,
                        girth_trials,
                        fill_policy,
                    };
                    for seed in [0u64, 1, 2, 3, 187, u64::MAX] {
                        let result = conf.run(seed);
                        assert_eq!(result, conf.clone().run(seed), "not reproducible");
                        digest_result(&mut digest, &result);
                        match result {
                            Ok(h) => {
                                check_result(&conf, &h);
                                ok += 1;
                            }
                            Err(Error::NoAvailRows) => by_error[0] += 1,
                            Err(Error::GirthTooSmall) => by_error[1] += 1,
                            Err(Error::NoMoreBacktrack) => by_error[2] += 1,
                            Err(Error::NoMoreTrials) => by_error[3] += 1,
                        }
                    }
                }
            }
        }
    }
    // the internal errors are never shown to the caller
    assert_eq!(by_error[0], 0);
    assert_eq!(by_error[1], 0);
    assert!(ok > 1000, "{ok}");
    assert!(by_error[2] > 300, "{by_error:?}");
    assert!(by_error[3] > 100, "{by_error:?}");
    assert_eq!(
        (ok, by_error[2], by_error[3], digest),
        GOLDEN_GRID,
        "results differ from those of the reference code"
    );
}

#[test]
fn seeds_matter_and_known_answer() {
    // the known answer from the crate's own unit test
    let conf = Config {
        nrows: 4,
        ncols: 8,
        wr: 4,
        wc: 2,
        backtrack_cols: 0,
        backtrack_trials: 0,
        min_girth: None,
        girth_trials: 0,
        fill_policy: FillPolicy::Random,
    };
    let alist = "8 4\n2 4\n2 2 2 2 2 2 2 2\n4 4 4 4\n1 3\n2 4\n2 3\n1 4\n1 4\n1 4\n2 3\n2 3\n\
                 1 4 5 6\n2 3 7 8\n1 3 7 8\n2 4 5 6\n";
    assert_eq!(conf.run(187).unwrap().alist(), alist);

    for fill_policy in [FillPolicy::Random, FillPolicy::Uniform] {
        let conf = Config {
            nrows: 10,
            ncols: 20,
            wr: 7,
            wc: 3,
            backtrack_cols: 2,
            backtrack_trials: 10,
            min_girth: None,
            girth_trials: 0,
            fill_policy,
        };
        let distinct: BTreeSet<String> = (0..20u64)
            .filter_map(|s| conf.run(s).ok())
            .map(|h| h.alist())
            .collect();
        assert!(distinct.len() >= 10, "{}", distinct.len());
    }
}

fn search_configs() -> Vec<Config> {
    let base = Config {
        nrows: 10,
        ncols: 20,
        wr: 4,
        wc: 2,
        backtrack_cols: 0,
        backtrack_trials: 0,
        min_girth: None,
        girth_trials: 0,
        fill_policy: FillPolicy::Random,
    };
    vec![
        // regular code with the random policy: about one seed in three fails
        base.clone(),
        // larger regular code with the random policy: most seeds fail, with
        // runs of more than 16 consecutive failing seeds
        Config {
            nrows: 12,
            ncols: 24,
            wr: 6,
            wc: 3,
            ..base.clone()
        },
        // girth constraint with no retries: most seeds fail
        Config {
            nrows: 20,
            ncols: 30,
            wr: 3,
            wc: 2,
            min_girth: Some(6),
            fill_policy: FillPolicy::Uniform,
            ..base.clone()
        },
        // harder girth constraint with retries and backtracking
        Config {
            nrows: 16,
            ncols: 24,
            wr: 3,
            wc: 2,
            min_girth: Some(8),
            girth_trials: 12,
            backtrack_cols: 2,
            backtrack_trials: 3,
            fill_policy: FillPolicy::Uniform,
            ..base.clone()
        },
        // every seed succeeds
        Config {
            wr: 6,
            fill_policy: FillPolicy::Uniform,
            ..base.clone()
        },
        // no seed succeeds
        Config {
            nrows: 3,
            ncols: 4,
            wr: 2,
            wc: 2,
            ..base.clone()
        },
    ]
}

const HORIZON: u64 = 260;

fn successful_seeds(conf: &Config) -> BTreeSet<u64> {
    (0..HORIZON).filter(|&s| conf.run(s).is_ok()).collect()
}

fn check_search(conf: &Config, good: &BTreeSet<u64>, start: u64, tries: u64) -> Option<u64> {
    assert!(start + tries <= HORIZON);
    let any_good = good.range(start..start + tries).next().is_some();
    match conf.search(start, tries) {
        Some((seed, h)) => {
            assert!(
                start <= seed && seed < start + tries,
                "seed {seed} outside {start}..{}",
                start + tries
            );
            assert!(good.contains(&seed));
            assert_eq!(Ok(&h), conf.run(seed).as_ref(), "matrix is not that of the seed");
            check_result(conf, &h);
            Some(seed)
        }
        None => {
            assert!(
                !any_good,
                "search({start}, {tries}) found nothing but {:?} succeed",
                good.range(start..start + tries).collect::<Vec<_>>()
            );
            None
        }
    }
}

#[test]
fn search_contract() {
    let mut long_gap_seen = false;
    let mut long_none_seen = false;
    let mut digest = FNV_INIT;
    for conf in search_configs() {
        let good = successful_seeds(&conf);
        for &s in &good {
            fnv1a(&mut digest, &s.to_le_bytes());
        }
        fnv1a(&mut digest, b"|");

        // systematic ranges: empty, single seed, below / at / above the size of
        // a search block, and far above it
        for start in [0u64, 1, 5, 15, 16, 17, 31, 100] {
            for tries in [0u64, 1, 2, 7, 15, 16, 17, 32, 33, 64, 150] {
                if start + tries > HORIZON {
                    continue;
                }
                let found = check_search(&conf, &good, start, tries);
                if tries == 0 {
                    assert_eq!(found, None);
                }
                if tries == 1 {
                    assert_eq!(found.is_some(), good.contains(&start));
                }
                if found.is_none() && tries > 16 {
                    long_none_seen = true;
                }
            }
        }

        // ranges that start right after a successful seed and end right
        // after / right before the next one: the only candidate is the last
        // seed of the range, or there is none
        let seeds: Vec<u64> = good.iter().copied().collect();
        for pair in seeds.windows(2) {
            let (a, b) = (pair[0], pair[1]);
            let gap = b - a - 1; // failing seeds in between
            assert_eq!(check_search(&conf, &good, a + 1, gap + 1), Some(b));
            assert_eq!(check_search(&conf, &good, a + 1, gap), None);
            assert_eq!(check_search(&conf, &good, a, gap + 1), Some(a));
            if gap >= 16 {
                long_gap_seen = true;
            }
            if gap > 16 {
                long_none_seen = true;
            }
        }

        // the whole horizon
        let found = check_search(&conf, &good, 0, HORIZON);
        assert_eq!(found.is_some(), !good.is_empty());
    }
    assert!(long_gap_seen, "no case where the first successful seed is 16 or more seeds away");
    assert!(long_none_seen, "no unsuccessful search longer than 16 seeds");
    assert_eq!(
        digest, GOLDEN_SEARCH,
        "the set of successful seeds differs from that of the reference code"
    );
}

#[test]
fn search_repeated_gives_valid_answers() {
    // the answer may depend on the schedule; every answer has to be valid
    let conf = &search_configs()[0];
    let good = successful_seeds(conf);
    assert!(good.len() >= 3);
    for _ in 0..25 {
        check_search(conf, &good, 0, HORIZON).unwrap();
        check_search(conf, &good, 3, 200).unwrap();
    }
}

fn cli(args: &[String]) -> std::process::Output {
    Command::new(env!("CARGO_BIN_EXE_ldpc-toolbox"))
        .arg("mackay-neal")
        .args(args)
        .output()
        .unwrap()
}

fn cli_args(conf: &Config, seed: u64) -> Vec<String> {
    let mut args: Vec<String> = [conf.nrows, conf.ncols, conf.wr, conf.wc]
        .iter()
        .map(|x| x.to_string())
        .collect();
    args.push(seed.to_string());
    args.push(format!("--backtrack-cols={}", conf.backtrack_cols));
    args.push(format!("--backtrack-trials={}", conf.backtrack_trials));
    if let Some(g) = conf.min_girth {
        args.push(format!("--min-girth={g}"));
    }
    args.push(format!("--girth-trials={}", conf.girth_trials));
    if conf.fill_policy == FillPolicy::Uniform {
        args.push("--uniform".to_string());
    }
    args
}

#[test]
fn command_line_tool() {
    for conf in search_configs() {
        let good = successful_seeds(&conf);

        // plain run
        for seed in 0..6u64 {
            let out = cli(&cli_args(&conf, seed));
            match conf.run(seed) {
                Ok(h) => {
                    assert!(out.status.success());
                    assert_eq!(String::from_utf8(out.stdout).unwrap(), format!("{}\n", h.alist()));
                    assert!(out.stderr.is_empty());
                }
                Err(e) => {
                    assert!(!out.status.success());
                    assert!(out.stdout.is_empty());
                    assert!(String::from_utf8(out.stderr).unwrap().contains(&e.to_string()));
                }
            }
        }

        // search
        for (start, tries) in [(0u64, 1u64), (0, 16), (2, 40), (7, 200)] {
            let mut args = cli_args(&conf, start);
            args.push("--search".to_string());
            args.push(format!("--seed-trials={tries}"));
            let out = cli(&args);
            let stdout = String::from_utf8(out.stdout).unwrap();
            let stderr = String::from_utf8(out.stderr).unwrap();
            if good.range(start..start + tries).next().is_some() {
                assert!(out.status.success(), "{stderr}");
                let seed: u64 = stderr
                    .strip_prefix("seed = ")
                    .and_then(|s| s.strip_suffix('\n'))
                    .unwrap_or_else(|| panic!("unexpected stderr {stderr:?}"))
                    .parse()
                    .unwrap();
                assert!(start <= seed && seed < start + tries);
                assert_eq!(stdout, format!("{}\n", conf.run(seed).unwrap().alist()));
            } else {
                assert!(!out.status.success());
                assert!(stdout.is_empty());
                assert!(stderr.contains("no solution found"), "{stderr}");
            }
        }
    }
}

// Obtained with the unchanged code.
const GOLDEN_GRID: (usize, usize, usize, u64) = (1971, 1203, 1326, 16808267421510872585);
const GOLDEN_SEARCH: u64 = 729500880429215809;
