// Demonstration that the alist property holds: alist text and matrices
// round-trip losslessly and the parser is total.
//
// Everything is checked against an independent model of the format written in
// this file (model writer, model parser), using only the public API of the
// crate. Deterministic (fixed seeds), CPU-bound with bounded loops, and run
// under a watchdog so that it can never hang forever.

use ldpc_toolbox::sparse::SparseMatrix;
use std::collections::BTreeSet;
use std::panic::{catch_unwind, AssertUnwindSafe};
use std::sync::mpsc;
use std::time::Duration;

// ---------------------------------------------------------------- utilities

fn with_watchdog<F: FnOnce() + Send + 'static>(name: &str, f: F) {
    let (tx, rx) = mpsc::channel();
    let handle = std::thread::Builder::new()
        .name(name.to_string())
        .stack_size(16 << 20)
        .spawn(move || {
            let r = catch_unwind(AssertUnwindSafe(f));
            let _ = tx.send(r.is_ok());
        })
        .unwrap();
    match rx.recv_timeout(Duration::from_secs(600)) {
        Ok(true) => {
            let _ = handle.join();
        }
        Ok(false) => panic!("{}: failed", name),
        Err(_) => panic!("{}: timed out", name),
    }
}

struct Rng(u64);

impl Rng {
    fn next(&mut self) -> u64 {
        // splitmix64
        self.0 = self.0.wrapping_add(0x9E37_79B9_7F4A_7C15);
        let mut z = self.0;
        z = (z ^ (z >> 30)).wrapping_mul(0xBF58_476D_1CE4_E5B9);
        z = (z ^ (z >> 27)).wrapping_mul(0x94D0_49BB_1331_11EB);
        z ^ (z >> 31)
    }
    fn below(&mut self, n: usize) -> usize {
        (self.next() % (n as u64)) as usize
    }
    fn chance(&mut self, num: usize, den: usize) -> bool {
        self.below(den) < num
    }
}

type Ones = BTreeSet<(usize, usize)>;

/// Set of ones of a matrix, cross-checking all the public accessors.
fn ones_of(h: &SparseMatrix) -> Ones {
    let all: Vec<(usize, usize)> = h.iter_all().collect();
    let set: Ones = all.iter().copied().collect();
    assert_eq!(all.len(), set.len(), "iter_all has repeated entries");
    let mut by_rows = Ones::new();
    for r in 0..h.num_rows() {
        let v: Vec<usize> = h.iter_row(r).copied().collect();
        assert_eq!(v.len(), h.row_weight(r));
        for c in v {
            assert!(c < h.num_cols());
            assert!(by_rows.insert((r, c)), "repeated entry in a row");
            assert!(h.contains(r, c));
        }
    }
    let mut by_cols = Ones::new();
    for c in 0..h.num_cols() {
        let v: Vec<usize> = h.iter_col(c).copied().collect();
        assert_eq!(v.len(), h.col_weight(c));
        for r in v {
            assert!(r < h.num_rows());
            assert!(by_cols.insert((r, c)), "repeated entry in a column");
        }
    }
    assert_eq!(set, by_rows);
    assert_eq!(set, by_cols);
    set
}

// ------------------------------------------------------------- model writer

fn join(v: &[usize]) -> String {
    v.iter()
        .map(|x| x.to_string())
        .collect::<Vec<_>>()
        .join(" ")
}

fn model_alist(nrows: usize, ncols: usize, ones: &Ones, padding: bool) -> String {
    let mut cols: Vec<Vec<usize>> = vec![Vec::new(); ncols];
    let mut rows: Vec<Vec<usize>> = vec![Vec::new(); nrows];
    for &(r, c) in ones {
        // BTreeSet order is (r, c) lexicographic, so both lists end up sorted
        cols[c].push(r + 1);
        rows[r].push(c + 1);
    }
    let maxc = cols.iter().map(|v| v.len()).max().unwrap_or(0);
    let maxr = rows.iter().map(|v| v.len()).max().unwrap_or(0);
    let mut s = String::new();
    s += &format!("{} {}\n", ncols, nrows);
    s += &format!("{} {}\n", maxc, maxr);
    s += &join(&cols.iter().map(|v| v.len()).collect::<Vec<_>>());
    s += "\n";
    s += &join(&rows.iter().map(|v| v.len()).collect::<Vec<_>>());
    s += "\n";
    for (lists, maxw) in [(&cols, maxc), (&rows, maxr)] {
        for l in lists.iter() {
            let mut l = l.clone();
            if padding {
                while l.len() < maxw.max(1) {
                    l.push(0);
                }
            }
            s += &join(&l);
            s += "\n";
        }
    }
    s
}

/// Checks the structure that the format prescribes without using the model
/// writer: header, maximum-weight line, weight lines, sorted 1-based lists.
fn check_structure(text: &str, nrows: usize, ncols: usize, ones: &Ones, padding: bool) {
    assert!(text.ends_with('\n'));
    let lines: Vec<&str> = text[..text.len() - 1].split('\n').collect();
    assert_eq!(lines.len(), 4 + ncols + nrows, "number of lines");
    let nums = |l: &str| -> Vec<usize> {
        l.split(' ')
            .filter(|t| !t.is_empty())
            .map(|t| {
                assert!(t.bytes().all(|b| b.is_ascii_digit()), "token {:?}", t);
                t.parse::<usize>().unwrap()
            })
            .collect()
    };
    assert_eq!(nums(lines[0]), vec![ncols, nrows]);
    let mut colw = vec![0usize; ncols];
    let mut roww = vec![0usize; nrows];
    for &(r, c) in ones {
        colw[c] += 1;
        roww[r] += 1;
    }
    let maxc = colw.iter().copied().max().unwrap_or(0);
    let maxr = roww.iter().copied().max().unwrap_or(0);
    assert_eq!(nums(lines[1]), vec![maxc, maxr]);
    assert_eq!(nums(lines[2]), colw);
    assert_eq!(nums(lines[3]), roww);
    for c in 0..ncols {
        let v = nums(lines[4 + c]);
        let expected: Vec<usize> = ones
            .iter()
            .filter(|e| e.1 == c)
            .map(|e| e.0 + 1)
            .collect();
        let (head, tail) = v.split_at(expected.len().min(v.len()));
        assert_eq!(head, &expected[..], "column {} list", c);
        assert!(tail.iter().all(|&x| x == 0));
        if padding {
            assert_eq!(v.len(), maxc.max(1));
        } else {
            assert!(tail.is_empty());
        }
    }
    for r in 0..nrows {
        let v = nums(lines[4 + ncols + r]);
        let expected: Vec<usize> = ones
            .iter()
            .filter(|e| e.0 == r)
            .map(|e| e.1 + 1)
            .collect();
        let (head, tail) = v.split_at(expected.len().min(v.len()));
        assert_eq!(head, &expected[..], "row {} list", r);
        assert!(tail.iter().all(|&x| x == 0));
        if padding {
            assert_eq!(v.len(), maxr.max(1));
        } else {
            assert!(tail.is_empty());
        }
    }
}

// ------------------------------------------------------------- model parser

struct Parsed {
    nrows: usize,
    ncols: usize,
    ones: Ones,
    // the matrix built as a sequence of insert() calls in text order
    built: SparseMatrix,
}

fn model_header(text: &str) -> Option<(usize, usize)> {
    let first = text.split('\n').next()?;
    let mut t = first.split_whitespace();
    let ncols = t.next()?.parse::<usize>().ok()?;
    let nrows = t.next()?.parse::<usize>().ok()?;
    Some((ncols, nrows))
}

fn model_parse(text: &str) -> Option<Parsed> {
    let (ncols, nrows) = model_header(text)?;
    let lines: Vec<&str> = text.split('\n').collect();
    let mut ones = Ones::new();
    let mut built = SparseMatrix::new(nrows, ncols);
    for c in 0..ncols {
        let line = lines.get(4 + c)?;
        for t in line.split_whitespace() {
            let r = t.parse::<usize>().ok()?;
            if r == 0 {
                continue;
            }
            if r > nrows {
                return None;
            }
            ones.insert((r - 1, c));
            built.insert(r - 1, c);
        }
    }
    Some(Parsed {
        nrows,
        ncols,
        ones,
        built,
    })
}

const MAX_DIM: usize = 3000;

/// The property only covers texts with moderate declared dimensions.
fn moderate(text: &str) -> bool {
    match model_header(text) {
        Some((ncols, nrows)) => ncols <= MAX_DIM && nrows <= MAX_DIM,
        None => true,
    }
}

/// Runs the parser on a text and compares with the model. Returns whether the
/// text was accepted.
fn check_parse(text: &str) -> Option<bool> {
    if !moderate(text) {
        return None;
    }
    let result = catch_unwind(AssertUnwindSafe(|| SparseMatrix::from_alist(text)));
    let result = match result {
        Ok(r) => r,
        Err(_) => panic!("from_alist panicked on {:?}", text),
    };
    let model = model_parse(text);
    match (result, model) {
        (Ok(h), Some(m)) => {
            assert_eq!(h.num_rows(), m.nrows, "nrows for {:?}", text);
            assert_eq!(h.num_cols(), m.ncols, "ncols for {:?}", text);
            assert_eq!(ones_of(&h), m.ones, "ones for {:?}", text);
            assert_eq!(h, m.built, "matrix for {:?}", text);
            Some(true)
        }
        (Err(e), None) => {
            assert!(!e.trim().is_empty(), "empty error message for {:?}", text);
            Some(false)
        }
        (Ok(_), None) => panic!("from_alist accepted {:?}, which is malformed", text),
        (Err(e), Some(_)) => panic!("from_alist rejected {:?} with {:?}", text, e),
    }
}

// --------------------------------------------------------- matrix generators

fn random_matrix(rng: &mut Rng, nrows: usize, ncols: usize, style: usize) -> SparseMatrix {
    let mut h = SparseMatrix::new(nrows, ncols);
    if nrows == 0 || ncols == 0 {
        return h;
    }
    match style % 7 {
        0 => (), // all-zero
        1 => {
            // full
            for r in 0..nrows {
                for c in 0..ncols {
                    h.insert(r, c);
                }
            }
        }
        2 => {
            // sparse, random insertion order (unsorted internal lists)
            let n = rng.below(nrows + ncols + 1);
            for _ in 0..n {
                h.insert(rng.below(nrows), rng.below(ncols));
            }
        }
        3 => {
            // half density, descending insertion order
            for r in (0..nrows).rev() {
                for c in (0..ncols).rev() {
                    if rng.chance(1, 2) {
                        h.insert(r, c);
                    }
                }
            }
        }
        4 => {
            // some rows and columns forced empty
            let empty_row = rng.below(nrows);
            let empty_col = rng.below(ncols);
            for r in 0..nrows {
                for c in 0..ncols {
                    if r != empty_row && c != empty_col && rng.chance(1, 3) {
                        h.insert(r, c);
                    }
                }
            }
        }
        5 => {
            // reached through an editing history with all the mutators
            let steps = 4 * (nrows + ncols);
            for _ in 0..steps {
                let r = rng.below(nrows);
                let c = rng.below(ncols);
                match rng.below(10) {
                    0..=3 => h.insert(r, c),
                    4 => h.remove(r, c),
                    5 => h.toggle(r, c),
                    6 => {
                        let v: Vec<usize> = (0..ncols).filter(|_| rng.chance(1, 3)).collect();
                        if rng.chance(1, 2) {
                            h.insert_row(r, v.iter());
                        } else {
                            h.set_row(r, v.iter().rev());
                        }
                    }
                    7 => {
                        let v: Vec<usize> = (0..nrows).filter(|_| rng.chance(1, 3)).collect();
                        if rng.chance(1, 2) {
                            h.insert_col(c, v.iter());
                        } else {
                            h.set_col(c, v.into_iter().rev());
                        }
                    }
                    8 => h.clear_row(r),
                    _ => h.clear_col(c),
                }
            }
        }
        _ => {
            // a single one, or a single full row / column
            match rng.below(3) {
                0 => h.insert(rng.below(nrows), rng.below(ncols)),
                1 => {
                    let r = rng.below(nrows);
                    h.insert_row(r, 0..ncols);
                }
                _ => {
                    let c = rng.below(ncols);
                    h.insert_col(c, (0..nrows).rev());
                }
            }
        }
    }
    h
}

struct BudgetWriter {
    budget: usize,
    out: String,
}

impl std::fmt::Write for BudgetWriter {
    fn write_str(&mut self, s: &str) -> std::fmt::Result {
        if self.out.len() + s.len() > self.budget {
            return Err(std::fmt::Error);
        }
        self.out.push_str(s);
        Ok(())
    }
}

fn check_matrix(h: &SparseMatrix) {
    let nrows = h.num_rows();
    let ncols = h.num_cols();
    let ones = ones_of(h);
    let before = h.clone();
    for padding in [true, false] {
        let text = if padding {
            h.alist()
        } else {
            h.alist_no_padding()
        };
        check_structure(&text, nrows, ncols, &ones, padding);
        assert_eq!(text, model_alist(nrows, ncols, &ones, padding));
        // the write_* functions give the same text as the String functions
        let mut s = String::from("prefix;");
        if padding {
            h.write_alist(&mut s).unwrap();
        } else {
            h.write_alist_no_padding(&mut s).unwrap();
        }
        assert_eq!(s, format!("prefix;{}", text));
        // a writer that runs out of room gives an error
        for budget in [0, text.len() / 2, text.len() - 1, text.len()] {
            let mut w = BudgetWriter {
                budget,
                out: String::new(),
            };
            let r = if padding {
                h.write_alist(&mut w)
            } else {
                h.write_alist_no_padding(&mut w)
            };
            assert_eq!(r.is_ok(), budget >= text.len());
            assert!(text.starts_with(&w.out));
            if r.is_ok() {
                assert_eq!(w.out, text);
            }
        }
        // round trip
        let back = SparseMatrix::from_alist(&text).expect("own alist rejected");
        assert_eq!(back.num_rows(), nrows);
        assert_eq!(back.num_cols(), ncols);
        assert_eq!(ones_of(&back), ones);
        assert_eq!(check_parse(&text), Some(true));
        // and the round-tripped matrix writes the same text again
        assert_eq!(back.alist(), h.alist());
        assert_eq!(back.alist_no_padding(), h.alist_no_padding());
        // the text without the final line feed, or with CRLF, is the same matrix
        let crlf = text.replace('\n', "\r\n");
        let back = SparseMatrix::from_alist(&crlf).expect("CRLF alist rejected");
        assert_eq!(ones_of(&back), ones);
        assert_eq!((back.num_rows(), back.num_cols()), (nrows, ncols));
        if ncols > 0 {
            let chopped = &text[..text.len() - 1];
            let back = SparseMatrix::from_alist(chopped).expect("chopped alist rejected");
            assert_eq!(ones_of(&back), ones);
        }
    }
    // writing does not change the matrix
    assert_eq!(h, &before);
}

// -------------------------------------------------------------------- tests

#[test]
fn matrices_round_trip() {
    with_watchdog("matrices_round_trip", || {
        let mut rng = Rng(0xC08);
        let mut count = 0;
        // all small shapes, all styles
        for nrows in 1..=7 {
            for ncols in 1..=7 {
                for style in 0..7 {
                    for _ in 0..2 {
                        let h = random_matrix(&mut rng, nrows, ncols, style);
                        check_matrix(&h);
                        count += 1;
                    }
                }
            }
        }
        // every 1xN, Nx1, 2x2 and 2x3 matrix, exhaustively
        for (nrows, ncols) in [(1, 1), (1, 5), (5, 1), (2, 2), (2, 3), (3, 2), (3, 3)] {
            for mask in 0u32..(1 << (nrows * ncols)) {
                let mut h = SparseMatrix::new(nrows, ncols);
                // insert in a mask-dependent order
                let n = nrows * ncols;
                for k in 0..n {
                    let k = if mask % 2 == 0 { k } else { n - 1 - k };
                    if mask & (1 << k) != 0 {
                        h.insert(k / ncols, k % ncols);
                    }
                }
                check_matrix(&h);
                count += 1;
            }
        }
        // medium and large random shapes
        for i in 0..150 {
            let nrows = 1 + rng.below(40);
            let ncols = 1 + rng.below(90);
            let h = random_matrix(&mut rng, nrows, ncols, i);
            check_matrix(&h);
            count += 1;
        }
        // multi-digit indices and weights
        {
            let mut h = SparseMatrix::new(120, 1100);
            for c in 0..1100 {
                for k in 0..3 {
                    h.insert((c * 7 + k * 41) % 120, c);
                }
            }
            for c in (0..1100).step_by(9) {
                h.clear_col(c);
            }
            h.insert_row(119, (0..1100).rev());
            check_matrix(&h);
            count += 1;
        }
        // degenerate shapes that the API also allows
        for (nrows, ncols) in [(0, 0), (0, 1), (1, 0), (0, 6), (6, 0)] {
            let h = SparseMatrix::new(nrows, ncols);
            check_matrix(&h);
            count += 1;
        }
        assert!(count > 1000);
    });
}

#[test]
fn literal_examples() {
    // all-zero 2x3
    let h = SparseMatrix::new(2, 3);
    assert_eq!(h.alist(), "3 2\n0 0\n0 0 0\n0 0\n0\n0\n0\n0\n0\n");
    assert_eq!(h.alist_no_padding(), "3 2\n0 0\n0 0 0\n0 0\n\n\n\n\n\n");
    // irregular with an empty row and an empty column
    let mut h = SparseMatrix::new(3, 4);
    h.insert(2, 3);
    h.insert(0, 3);
    h.insert(0, 0);
    h.insert(2, 1);
    assert_eq!(
        h.alist(),
        "4 3\n2 2\n1 1 0 2\n2 0 2\n1 0\n3 0\n0 0\n1 3\n1 4\n0 0\n2 4\n"
    );
    assert_eq!(
        h.alist_no_padding(),
        "4 3\n2 2\n1 1 0 2\n2 0 2\n1\n3\n\n1 3\n1 4\n\n2 4\n"
    );
    for text in [h.alist(), h.alist_no_padding()] {
        let back = SparseMatrix::from_alist(&text).unwrap();
        assert_eq!(ones_of(&back), ones_of(&h));
    }
    // accepted oddities: unsorted and repeated entries, padding anywhere,
    // explicit plus sign, leading zeros, garbage in the ignored lines and after
    // the column lists, tabs and other white space as separators
    let text = "+3 02 trailing junk\njunk\n\u{1F600}\n-1 -1\n2 1 2\n0 0\n\t1\u{A0}0\u{2003}1\x0b\x0c\r\nnot a number\n99 99";
    let h = SparseMatrix::from_alist(text).unwrap();
    assert_eq!((h.num_rows(), h.num_cols()), (2, 3));
    assert_eq!(
        ones_of(&h),
        [(1, 0), (0, 0), (0, 2)].into_iter().collect::<Ones>()
    );
    assert_eq!(check_parse(text), Some(true));
    // rejected
    for text in [
        "",
        "\n",
        "3",
        "3\n2\n",
        "a 2\n",
        "3 b\n",
        "-3 2\n",
        "3 -2\n",
        "3 2",
        "3 2\n",
        "3 2\n1 1\n1 1 1\n1 1\n1\n2",
        "3 2\n1 1\n1 1 1\n1 1\n1\n2\n3\n",
        "3 2\n1 1\n1 1 1\n1 1\n1\n2\nx\n",
        "3 2\n1 1\n1 1 1\n1 1\n1\n2\n-1\n",
        "3 2\n1 1\n1 1 1\n1 1\n1\n2\n1.0\n",
        "3 2\n1 1\n1 1 1\n1 1\n1\n2\n+\n",
        "3 2\n1 1\n1 1 1\n1 1\n1\n2\n1+\n",
        "3 2\n1 1\n1 1 1\n1 1\n1\n2\n18446744073709551616\n",
        "3 2\n1 1\n1 1 1\n1 1\n1\n2\n99999999999999999999999999\n",
        "3 2\n1 1\n1 1 1\n1 1\n1\n2\n1\u{1F600}\n",
        "18446744073709551616 2\n",
        "2 18446744073709551616\n",
        "1 0\n0 0\n0\n\n1\n",
        "\u{FEFF}3 2\n",
    ] {
        assert_eq!(check_parse(text), Some(false), "{:?}", text);
    }
    // accepted corner cases
    for text in [
        "0 0",
        "0 5",
        "0 5 junk\njunk",
        "0 18",
        "1 0\n\n\n\n",
        "1 0\n\n\n\n0 0 0",
        "1 1\n\n\n\n",
        "1 1\n\n\n\n1",
        "1 1\n\n\n\n1 1 1 0 1",
        "2 1\nx\ny\nz\n1\n\n",
        "3 2\n1 1\n1 1 1\n1 1\n1\n2\n00000000000000000000000000000000000002\nrows are ignored x y z",
        "3 2\r\n1 1\r\n1 1 1\r\n1 1\r\n1\r\n2\r\n+2",
        "3 2\n1 1\n1 1 1\n1 1\n1\n2\n\n\n\n\n\n\n",
    ] {
        assert_eq!(check_parse(text), Some(true), "{:?}", text);
    }
}

const SOUP_TOKENS: &[&str] = &[
    "0", "1", "2", "3", "4", "5", "6", "7", "8", "9", "10", "11", "12", "13", "+1", "+0", "-1",
    "-0", "00", "007", "1e3", "0x1", "1.5", "a", "é", "\u{1F600}", "+", "-", "18446744073709551615",
    "18446744073709551616", "99999999999999999999", "4294967296", "", "١", "++1", "+-1", "1_0",
    "00000000000000000000000000", "+000000000000000000000000001", "1+", "０",
];

const SOUP_SEPARATORS: &[&str] = &[
    " ", " ", " ", " ", "\n", "\n", "\n", "  ", "\t", "\r\n", "\r", "\u{A0}", "\u{2028}", "\x0b",
    "\x0c", "\u{85}", "\u{3000}", " \n", "\n ", "",
];

fn token_soup(rng: &mut Rng) -> String {
    let mut s = String::new();
    // often start with a plausible header so that the body gets exercised
    match rng.below(4) {
        0 => (),
        1 => s += &format!("{} {}\n", rng.below(6), rng.below(6)),
        2 => s += &format!("{} {}\n{} {}\n", rng.below(6), rng.below(14), rng.below(9), rng.below(9)),
        _ => s += &format!("{} {}\nx\ny\nz\n", rng.below(5), 1 + rng.below(13)),
    }
    let n = rng.below(60);
    for _ in 0..n {
        let t = if rng.chance(3, 4) {
            SOUP_TOKENS[rng.below(14)]
        } else {
            SOUP_TOKENS[rng.below(SOUP_TOKENS.len())]
        };
        s += t;
        s += SOUP_SEPARATORS[rng.below(SOUP_SEPARATORS.len())];
    }
    s
}

fn mutate(rng: &mut Rng, text: &str) -> String {
    let mut chars: Vec<char> = text.chars().collect();
    let nmut = 1 + rng.below(3);
    for _ in 0..nmut {
        match rng.below(12) {
            0 => {
                // truncate
                let n = rng.below(chars.len() + 1);
                chars.truncate(n);
            }
            1 => {
                // delete a char
                if !chars.is_empty() {
                    let k = rng.below(chars.len());
                    chars.remove(k);
                }
            }
            2 => {
                // replace a char
                if !chars.is_empty() {
                    let k = rng.below(chars.len());
                    let pool = ['0', '1', '9', ' ', '\n', '-', '+', 'x', '\t', '\r', 'é', '\u{A0}'];
                    chars[k] = pool[rng.below(pool.len())];
                }
            }
            3 => {
                // insert a char
                let k = rng.below(chars.len() + 1);
                let pool = ['0', '1', '7', ' ', '\n', '-', '+', 'q', '\u{2028}', '\u{1F600}'];
                chars.insert(k, pool[rng.below(pool.len())]);
            }
            4 | 5 => {
                // replace a token of the body by another number (often out of range)
                let s: String = chars.iter().collect();
                let mut lines: Vec<String> = s.split('\n').map(String::from).collect();
                let k = rng.below(lines.len());
                if k > 0 {
                    let mut toks: Vec<String> =
                        lines[k].split(' ').map(String::from).collect();
                    let j = rng.below(toks.len());
                    toks[j] = match rng.below(5) {
                        0 => "0".to_string(),
                        1 => rng.below(20).to_string(),
                        2 => (rng.below(3000)).to_string(),
                        3 => "18446744073709551616".to_string(),
                        _ => format!("{}", rng.below(12) + 1),
                    };
                    lines[k] = toks.join(" ");
                }
                chars = lines.join("\n").chars().collect();
            }
            6 => {
                // delete a line
                let s: String = chars.iter().collect();
                let mut lines: Vec<&str> = s.split('\n').collect();
                let k = rng.below(lines.len());
                lines.remove(k);
                chars = lines.join("\n").chars().collect();
            }
            7 => {
                // duplicate a line
                let s: String = chars.iter().collect();
                let mut lines: Vec<&str> = s.split('\n').collect();
                let k = rng.below(lines.len());
                let l = lines[k];
                lines.insert(k, l);
                chars = lines.join("\n").chars().collect();
            }
            8 => {
                // change the header to small numbers
                let s: String = chars.iter().collect();
                let mut lines: Vec<String> = s.split('\n').map(String::from).collect();
                lines[0] = format!("{} {}", rng.below(15), rng.below(15));
                chars = lines.join("\n").chars().collect();
            }
            9 => {
                // swap two lines
                let s: String = chars.iter().collect();
                let mut lines: Vec<&str> = s.split('\n').collect();
                let a = rng.below(lines.len());
                let b = rng.below(lines.len());
                lines.swap(a, b);
                chars = lines.join("\n").chars().collect();
            }
            10 => {
                // shuffle / repeat entries within a line (still the same set)
                let s: String = chars.iter().collect();
                let mut lines: Vec<String> = s.split('\n').map(String::from).collect();
                let k = rng.below(lines.len());
                if k >= 4 {
                    let mut toks: Vec<String> = lines[k]
                        .split_whitespace()
                        .map(String::from)
                        .collect();
                    if !toks.is_empty() {
                        let extra = toks[rng.below(toks.len())].clone();
                        toks.push(extra);
                        toks.push("0".to_string());
                        for i in (1..toks.len()).rev() {
                            let j = rng.below(i + 1);
                            toks.swap(i, j);
                        }
                    }
                    lines[k] = toks.join("  ");
                }
                chars = lines.join("\n").chars().collect();
            }
            _ => {
                // CRLF line endings
                let s: String = chars.iter().collect();
                chars = s.replace('\n', "\r\n").chars().collect();
            }
        }
    }
    chars.into_iter().collect()
}

#[test]
fn parser_is_total() {
    with_watchdog("parser_is_total", || {
        let mut rng = Rng(0x5EED_C08);
        let mut accepted = 0;
        let mut rejected = 0;
        let mut skipped = 0;
        let mut tally = |r: Option<bool>| match r {
            Some(true) => accepted += 1,
            Some(false) => rejected += 1,
            None => skipped += 1,
        };
        // token soups
        for _ in 0..6000 {
            let text = token_soup(&mut rng);
            tally(check_parse(&text));
        }
        // mutated valid alists
        for i in 0..500 {
            let nrows = 1 + rng.below(9);
            let ncols = 1 + rng.below(12);
            let h = random_matrix(&mut rng, nrows, ncols, i);
            let text = if rng.chance(1, 2) {
                h.alist()
            } else {
                h.alist_no_padding()
            };
            for _ in 0..12 {
                let m = mutate(&mut rng, &text);
                tally(check_parse(&m));
            }
        }
        // every truncation (at every byte) of some valid alists, and every
        // single-byte deletion
        for i in 0..12 {
            let nrows = 1 + rng.below(6);
            let ncols = 1 + rng.below(7);
            let h = random_matrix(&mut rng, nrows, ncols, 2 + i % 4);
            for text in [h.alist(), h.alist_no_padding()] {
                for n in 0..=text.len() {
                    tally(check_parse(&text[..n]));
                }
                for n in 0..text.len() {
                    let mut t = text.clone();
                    t.remove(n);
                    tally(check_parse(&t));
                }
            }
        }
        // out-of-range indices at every position of the column lists
        for i in 0..20 {
            let nrows = 1 + rng.below(6);
            let ncols = 1 + rng.below(7);
            let h = random_matrix(&mut rng, nrows, ncols, 1 + i % 5);
            let text = h.alist();
            let lines: Vec<&str> = text.split('\n').collect();
            for k in 4..4 + ncols + nrows {
                let toks: Vec<&str> = lines[k].split(' ').collect();
                for j in 0..toks.len() {
                    for bad in [nrows + 1, nrows + 2, nrows, ncols + 1, 2999] {
                        let mut toks: Vec<String> = toks.iter().map(|t| t.to_string()).collect();
                        toks[j] = bad.to_string();
                        let mut lines: Vec<String> = lines.iter().map(|l| l.to_string()).collect();
                        lines[k] = toks.join(" ");
                        let t = lines.join("\n");
                        let r = check_parse(&t);
                        if k < 4 + ncols && bad > nrows {
                            assert_eq!(r, Some(false));
                        } else {
                            assert_eq!(r, Some(true));
                        }
                        tally(r);
                    }
                }
            }
        }
        // both outcomes must have been exercised a lot
        println!("accepted {} rejected {} skipped {}", accepted, rejected, skipped);
        assert!(accepted > 1500, "accepted {}", accepted);
        assert!(rejected > 1500, "rejected {}", rejected);
        assert!(skipped < 500, "skipped {}", skipped);
    });
}

/// Matrices reached by long editing histories: after every single edit the
/// text must be the one of the matrix as it is now (this matters if weights or
/// anything else are cached inside the matrix).
#[test]
fn editing_histories() {
    with_watchdog("editing_histories", || {
        let mut rng = Rng(0xED17);
        for run in 0..120 {
            let nrows = 1 + rng.below(6);
            let ncols = 1 + rng.below(6);
            let mut h = SparseMatrix::new(nrows, ncols);
            let mut shadow = Ones::new();
            // sometimes start from a parsed or cloned matrix
            if run % 3 == 1 {
                let g = random_matrix(&mut rng, nrows, ncols, 3);
                shadow = ones_of(&g);
                h = SparseMatrix::from_alist(&g.alist_no_padding()).unwrap();
            } else if run % 3 == 2 {
                let g = random_matrix(&mut rng, nrows, ncols, 1);
                shadow = ones_of(&g);
                h = g.clone();
                drop(g);
            }
            for _ in 0..60 {
                let r = rng.below(nrows);
                let c = rng.below(ncols);
                match rng.below(12) {
                    0..=2 => {
                        h.insert(r, c);
                        shadow.insert((r, c));
                    }
                    3..=4 => {
                        h.remove(r, c);
                        shadow.remove(&(r, c));
                    }
                    5 => {
                        h.toggle(r, c);
                        if !shadow.remove(&(r, c)) {
                            shadow.insert((r, c));
                        }
                    }
                    6 => {
                        h.clear_row(r);
                        shadow.retain(|e| e.0 != r);
                    }
                    7 => {
                        h.clear_col(c);
                        shadow.retain(|e| e.1 != c);
                    }
                    8 => {
                        let v: Vec<usize> = (0..ncols).filter(|_| rng.chance(1, 2)).collect();
                        h.set_row(r, v.iter().rev());
                        shadow.retain(|e| e.0 != r);
                        shadow.extend(v.iter().map(|&c| (r, c)));
                    }
                    9 => {
                        let v: Vec<usize> = (0..nrows).filter(|_| rng.chance(1, 2)).collect();
                        h.set_col(c, v.iter());
                        shadow.retain(|e| e.1 != c);
                        shadow.extend(v.iter().map(|&r| (r, c)));
                    }
                    10 => {
                        let v: Vec<usize> = (0..ncols).filter(|_| rng.chance(1, 2)).collect();
                        h.insert_row(r, v.iter());
                        shadow.extend(v.iter().map(|&c| (r, c)));
                    }
                    _ => {
                        let v: Vec<usize> = (0..nrows).filter(|_| rng.chance(1, 2)).collect();
                        h.insert_col(c, v.iter().rev());
                        shadow.extend(v.iter().map(|&r| (r, c)));
                    }
                }
                assert_eq!(h.alist(), model_alist(nrows, ncols, &shadow, true));
                assert_eq!(
                    h.alist_no_padding(),
                    model_alist(nrows, ncols, &shadow, false)
                );
                for r in 0..nrows {
                    assert_eq!(h.row_weight(r), shadow.iter().filter(|e| e.0 == r).count());
                }
                for c in 0..ncols {
                    assert_eq!(h.col_weight(c), shadow.iter().filter(|e| e.1 == c).count());
                }
            }
            assert_eq!(ones_of(&h), shadow);
            check_matrix(&h);
            // a clone is independent of the original
            let mut g = h.clone();
            g.clear_row(0);
            g.insert(0, 0);
            assert_eq!(h.alist(), model_alist(nrows, ncols, &shadow, true));
            check_matrix(&g);
        }
    });
}
