// Demonstration for property C16: pseudorandom constructions honour their
// configuration and are reproducible; the seed search returns a seed of the
// range together with exactly the matrix of that seed, or nothing only if
// every seed of the range fails.
//
// Only the public API of the crate and std are used.  Every test body runs in
// a helper thread guarded by a timeout, so that the file can never hang.

use ldpc_toolbox::mackay_neal::{Config, Error, FillPolicy};
use ldpc_toolbox::sparse::SparseMatrix;
use std::sync::mpsc;
use std::time::Duration;

const TIMEOUT: Duration = Duration::from_secs(600);

fn guarded<F>(name: &'static str, f: F)
where
    F: FnOnce() + Send + 'static,
{
    let (tx, rx) = mpsc::channel();
    let handle = std::thread::Builder::new()
        .name(name.to_string())
        .stack_size(16 << 20)
        .spawn(move || {
            f();
            let _ = tx.send(());
        })
        .unwrap();
    match rx.recv_timeout(TIMEOUT) {
        Ok(()) => handle.join().unwrap(),
        Err(mpsc::RecvTimeoutError::Disconnected) => {
            // the body panicked: propagate
            if let Err(e) = handle.join() {
                std::panic::resume_unwind(e);
            }
            panic!("{name}: body vanished");
        }
        Err(mpsc::RecvTimeoutError::Timeout) => panic!("{name}: timed out"),
    }
}

/// splitmix64, used to draw configurations deterministically.
struct Mix(u64);

impl Mix {
    fn next(&mut self) -> u64 {
        self.0 = self.0.wrapping_add(0x9e37_79b9_7f4a_7c15);
        let mut z = self.0;
        z = (z ^ (z >> 30)).wrapping_mul(0xbf58_476d_1ce4_e5b9);
        z = (z ^ (z >> 27)).wrapping_mul(0x94d0_49bb_1331_11eb);
        z ^ (z >> 31)
    }
    fn below(&mut self, n: u64) -> u64 {
        self.next() % n
    }
}

struct Fnv(u64);

impl Fnv {
    fn new() -> Fnv {
        Fnv(0xcbf2_9ce4_8422_2325)
    }
    fn byte(&mut self, b: u8) {
        self.0 ^= b as u64;
        self.0 = self.0.wrapping_mul(0x0000_0100_0000_01b3);
    }
    fn word(&mut self, w: u64) {
        for b in w.to_le_bytes() {
            self.byte(b);
        }
    }
    fn text(&mut self, s: &str) {
        for b in s.bytes() {
            self.byte(b);
        }
        self.byte(0xff);
    }
}

fn error_code(e: Error) -> u64 {
    match e {
        Error::NoAvailRows => 1,
        Error::GirthTooSmall => 2,
        Error::NoMoreBacktrack => 3,
        Error::NoMoreTrials => 4,
    }
}

/// Folds a complete outcome (including the internal order of the entries of
/// every row and column, which `==` on matrices observes) into the digest.
fn absorb(d: &mut Fnv, r: &Result<SparseMatrix, Error>) {
    match r {
        Ok(h) => {
            d.word(0);
            d.text(&h.alist());
            for c in 0..h.num_cols() {
                for &x in h.iter_col(c) {
                    d.word(x as u64);
                }
                d.word(u64::MAX);
            }
            for r in 0..h.num_rows() {
                for &x in h.iter_row(r) {
                    d.word(x as u64);
                }
                d.word(u64::MAX);
            }
        }
        Err(e) => d.word(error_code(*e)),
    }
}

/// The guarantees the property states for a successful run.
fn check_matrix(conf: &Config, h: &SparseMatrix, ctx: &str) {
    assert_eq!(h.num_rows(), conf.nrows, "{ctx}: rows");
    assert_eq!(h.num_cols(), conf.ncols, "{ctx}: cols");
    for c in 0..h.num_cols() {
        assert_eq!(h.col_weight(c), conf.wc, "{ctx}: weight of column {c}");
        let mut v: Vec<usize> = h.iter_col(c).copied().collect();
        v.sort_unstable();
        v.dedup();
        assert_eq!(v.len(), conf.wc, "{ctx}: repeated entry in column {c}");
        for &r in &v {
            assert!(r < conf.nrows);
            assert!(h.contains(r, c));
            assert!(h.iter_row(r).any(|&x| x == c), "{ctx}: row/col tables disagree");
        }
    }
    let mut total = 0;
    for r in 0..h.num_rows() {
        assert!(h.row_weight(r) <= conf.wr, "{ctx}: row {r} too heavy");
        total += h.row_weight(r);
    }
    assert_eq!(total, conf.ncols * conf.wc, "{ctx}: number of ones");
    if let Some(g) = conf.min_girth {
        if let Some(actual) = h.girth() {
            assert!(actual >= g, "{ctx}: girth {actual} < {g}");
        }
    } else if conf.fill_policy == FillPolicy::Uniform && conf.nrows > 0 {
        let ws: Vec<usize> = (0..h.num_rows()).map(|r| h.row_weight(r)).collect();
        let lo = ws.iter().min().unwrap();
        let hi = ws.iter().max().unwrap();
        assert!(hi - lo <= 1, "{ctx}: uniform policy gave row weights {lo}..{hi}");
    }
}

fn draw_config(m: &mut Mix) -> Config {
    let nrows = m.below(13) as usize; // 0..=12
    let ncols = m.below(25) as usize; // 0..=24
    let wc = m.below(5) as usize; // 0..=4
    let wr = match m.below(4) {
        0 => m.below(4) as usize,
        1 => {
            // exactly tight (or rounded up)
            if nrows == 0 { 0 } else { (ncols * wc).div_ceil(nrows) }
        }
        _ => 1 + m.below(9) as usize,
    };
    let min_girth = match m.below(3) {
        0 => None,
        _ => Some(1 + m.below(10) as usize), // 1..=10
    };
    Config {
        nrows,
        ncols,
        wr,
        wc,
        backtrack_cols: m.below(6) as usize,
        backtrack_trials: [0, 0, 1, 3, 10, 40][m.below(6) as usize],
        min_girth,
        girth_trials: [0, 1, 5, 30, 200][m.below(5) as usize],
        fill_policy: if m.below(2) == 0 { FillPolicy::Random } else { FillPolicy::Uniform },
    }
}

fn draw_config_big(m: &mut Mix) -> Config {
    let nrows = 8 + m.below(40) as usize;
    let ncols = 8 + m.below(70) as usize;
    let wc = 1 + m.below(4) as usize;
    let wr = (ncols * wc).div_ceil(nrows) + m.below(3) as usize;
    Config {
        nrows,
        ncols,
        wr,
        wc,
        backtrack_cols: m.below(8) as usize,
        backtrack_trials: [0, 2, 10, 50][m.below(4) as usize],
        min_girth: [None, Some(4), Some(5), Some(6), Some(7), Some(8), Some(10), Some(12)][m.below(8) as usize],
        girth_trials: [0, 5, 50, 400][m.below(4) as usize],
        fill_policy: if m.below(2) == 0 { FillPolicy::Random } else { FillPolicy::Uniform },
    }
}

/// Sweep of small configurations: every successful run satisfies the
/// guarantees, a second run with the same seed gives the same answer, and the
/// digest of all answers is the one recorded from the reference implementation.
fn sweep(salt: u64, count: usize, big: bool) -> (u64, usize, usize) {
    let mut m = Mix(salt);
    let mut d = Fnv::new();
    let mut ok = 0;
    let mut differ = 0;
    for i in 0..count {
        let conf = if big { draw_config_big(&mut m) } else { draw_config(&mut m) };
        let seed = if m.below(4) == 0 { m.next() } else { m.below(50) };
        let r = conf.run(seed);
        let again = conf.run(seed);
        assert_eq!(r, again, "config {i} {conf:?} seed {seed} not reproducible");
        let cloned = conf.clone().run(seed);
        assert_eq!(r, cloned);
        if let Ok(h) = &r {
            ok += 1;
            check_matrix(&conf, h, &format!("config {i} {conf:?} seed {seed}"));
            // another seed normally explores other choices
            if let Ok(h2) = conf.run(seed ^ 0x5555) {
                check_matrix(&conf, &h2, &format!("config {i} second seed"));
                if h2 != *h {
                    differ += 1;
                }
            }
        }
        absorb(&mut d, &r);
    }
    (d.0, ok, differ)
}

fn successes(conf: &Config, start: u64, tries: u64) -> Vec<u64> {
    (start..start + tries).filter(|&s| conf.run(s).is_ok()).collect()
}

/// Checks one call of the seed search against a sequential scan.
fn check_search(conf: &Config, start: u64, tries: u64, ctx: &str) -> Option<u64> {
    let good = successes(conf, start, tries);
    let found = conf.search(start, tries);
    match found {
        None => {
            assert!(good.is_empty(), "{ctx}: search found nothing but seeds {good:?} succeed");
            None
        }
        Some((s, h)) => {
            assert!(s >= start && s - start < tries, "{ctx}: seed {s} outside the range");
            assert!(good.contains(&s), "{ctx}: seed {s} does not succeed");
            let direct = conf.run(s).unwrap();
            assert_eq!(h, direct, "{ctx}: matrix is not the one of seed {s}");
            assert_eq!(h.alist(), direct.alist());
            check_matrix(conf, &h, ctx);
            Some(s)
        }
    }
}

fn tight_random() -> Config {
    // exactly tight regular code under the random policy: fails for most seeds
    Config {
        nrows: 6,
        ncols: 12,
        wr: 8,
        wc: 4,
        backtrack_cols: 0,
        backtrack_trials: 0,
        min_girth: None,
        girth_trials: 0,
        fill_policy: FillPolicy::Random,
    }
}

fn girth_conf() -> Config {
    Config {
        nrows: 16,
        ncols: 16,
        wr: 3,
        wc: 3,
        backtrack_cols: 2,
        backtrack_trials: 5,
        min_girth: Some(6),
        girth_trials: 12,
        fill_policy: FillPolicy::Uniform,
    }
}

fn long_cycles_conf() -> Config {
    Config {
        nrows: 20,
        ncols: 30,
        wr: 3,
        wc: 2,
        backtrack_cols: 3,
        backtrack_trials: 4,
        min_girth: Some(10),
        girth_trials: 15,
        fill_policy: FillPolicy::Random,
    }
}

fn impossible() -> Config {
    // more ones requested than the rows can hold: every seed fails
    Config {
        nrows: 3,
        ncols: 10,
        wr: 2,
        wc: 2,
        backtrack_cols: 3,
        backtrack_trials: 4,
        min_girth: None,
        girth_trials: 0,
        fill_policy: FillPolicy::Uniform,
    }
}

/// A range all of whose seeds fail except the very last one.
fn only_last_succeeds(conf: &Config, len: u64, from: u64) -> u64 {
    let mut run = 0;
    let mut s = from;
    loop {
        assert!(s < from + 200_000, "no suitable range found");
        if conf.run(s).is_ok() {
            if run >= len - 1 {
                return s + 1 - len;
            }
            run = 0;
        } else {
            run += 1;
        }
        s += 1;
    }
}

#[test]
fn literal_matrix_of_the_documentation() {
    guarded("literal", || {
        let conf = Config {
            nrows: 4,
            ncols: 8,
            wr: 4,
            wc: 2,
            backtrack_cols: 0,
            backtrack_trials: 0,
            min_girth: None,
            girth_trials: 0,
            fill_policy: FillPolicy::Random,
        };
        let h = conf.run(187).unwrap();
        let alist = "8 4\n2 4\n2 2 2 2 2 2 2 2\n4 4 4 4\n1 3\n2 4\n2 3\n1 4\n1 4\n1 4\n2 3\n2 3\n1 4 5 6\n2 3 7 8\n1 3 7 8\n2 4 5 6\n";
        assert_eq!(h.alist(), alist);
        assert_eq!(conf.search(187, 1).unwrap(), (187, h));
    });
}

#[test]
fn search_ranges() {
    guarded("search_ranges", || {
        let confs = [tight_random(), girth_conf(), long_cycles_conf(), impossible()];
        for (k, conf) in confs.iter().enumerate() {
            for &(start, tries) in &[
                (0u64, 0u64),
                (5, 0),
                (0, 1),
                (1, 1),
                (0, 2),
                (7, 3),
                (0, 17),
                (100, 64),
                (1000, 65),
                (12345, 129),
                (u64::MAX - 40, 40),
                (u64::MAX - 1, 1),
                (u64::MAX, 0),
            ] {
                for rep in 0..3 {
                    check_search(conf, start, tries, &format!("conf {k} range {start}+{tries} rep {rep}"));
                }
            }
        }
        // impossible configuration: nothing, for every range
        assert!(impossible().search(0, 300).is_none());
    });
}

#[test]
fn search_single_survivor() {
    guarded("single_survivor", || {
        let conf = tight_random();
        for &len in &[1u64, 2, 3, 8, 9, 31, 32, 33] {
            let start = only_last_succeeds(&conf, len, 1_000);
            for rep in 0..4 {
                let got = check_search(&conf, start, len, &format!("last-only len {len} rep {rep}"));
                assert_eq!(got, Some(start + len - 1));
            }
            if len > 1 {
                // without its last seed the range has no solution at all
                assert_eq!(check_search(&conf, start, len - 1, "all fail"), None);
            }
        }
    });
}

#[test]
fn search_from_many_threads() {
    guarded("many_threads", || {
        let mut handles = Vec::new();
        for t in 0..6u64 {
            handles.push(std::thread::spawn(move || {
                let conf = [tight_random(), girth_conf(), long_cycles_conf()][(t % 3) as usize].clone();
                let mut seeds = Vec::new();
                for j in 0..12u64 {
                    let start = 50 * j + t;
                    seeds.push(check_search(&conf, start, 20 + j, &format!("thread {t} call {j}")));
                }
                seeds
            }));
        }
        for h in handles {
            h.join().unwrap();
        }
    });
}

#[test]
fn sweep_matches_recorded_answers() {
    guarded("sweep", || {
        // digests recorded from the reference implementation: the rewrite has to
        // give bit for bit the same answers (matrices, entry order and errors)
        let small: [(u64, u64); 4] = [
            (1, 0x055b4e88760dcefe),
            (2, 0x41eb3cd0160ecb1c),
            (3, 0x5c87b80a2927a21b),
            (0xdead_beef, 0x8bd343e1ff6fad5a),
        ];
        for (salt, want) in small {
            let (d, ok, differ) = sweep(salt, 1500, false);
            assert_eq!(d, want, "digest of small sweep {salt}");
            assert!(ok > 500 && differ > 200, "sweep {salt} is degenerate: {ok} {differ}");
        }
        let big: [(u64, u64); 3] = [
            (11, 0xca286b5c0b636bd2),
            (12, 0x3a53b082e1963f42),
            (13, 0x0bbd48ac780c9f20),
        ];
        for (salt, want) in big {
            let (d, ok, differ) = sweep(salt, 400, true);
            assert_eq!(d, want, "digest of big sweep {salt}");
            assert!(ok > 150 && differ > 150, "sweep {salt} is degenerate: {ok} {differ}");
        }
    });
}

fn rare_conf() -> Config {
    // succeeds for well under one seed in a hundred
    Config {
        nrows: 12,
        ncols: 14,
        wr: 4,
        wc: 3,
        backtrack_cols: 2,
        backtrack_trials: 5,
        min_girth: Some(6),
        girth_trials: 12,
        fill_policy: FillPolicy::Uniform,
    }
}

#[test]
fn search_ranges_ending_at_a_rare_success() {
    guarded("rare", || {
        let conf = rare_conf();
        let good = successes(&conf, 0, 1500);
        assert!(good.len() >= 3, "expected a few successful seeds, got {good:?}");
        let mut exercised = 0;
        for w in good.windows(2) {
            let (prev, s) = (w[0], w[1]);
            let room = s - prev - 1; // failing seeds just below s
            for &k in &[0u64, 1, 3, 4, 5, 11, 12, 13, 27, 28, 29, 59, 60, 61, 123, 124, 125, 251, 252, 253, 400] {
                if k > room {
                    continue;
                }
                // only the last seed of the range succeeds
                let got = conf.search(s - k, k + 1).expect("the last seed succeeds");
                assert_eq!(got.0, s);
                assert_eq!(got.1, conf.run(s).unwrap());
                check_matrix(&conf, &got.1, "rare");
                // and without it there is nothing
                assert!(conf.search(s - k, k).is_none());
                // the successful seed somewhere in the middle, failures on both sides
                let after = (good.iter().find(|&&g| g > s).map_or(1500, |&g| g) - s - 1).min(k);
                let got = conf.search(s - k, k + 1 + after).expect("one seed succeeds");
                assert_eq!(got.0, s);
                exercised += 1;
            }
        }
        assert!(exercised > 20, "only {exercised} ranges exercised");
    });
}

#[test]
fn huge_range_stops_early() {
    guarded("huge", || {
        for conf in [tight_random(), girth_conf(), long_cycles_conf()] {
            for &(start, tries) in &[(0u64, 1u64 << 40), (77, u64::MAX - 77), (1 << 50, 1 << 62)] {
                let (s, h) = conf.search(start, tries).expect("a solution exists");
                assert!(s >= start && s - start < tries);
                assert_eq!(h, conf.run(s).unwrap());
                check_matrix(&conf, &h, "huge");
            }
        }
    });
}
