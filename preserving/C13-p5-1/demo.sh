#!/bin/sh
# Demonstration for property C13 at the CLI level (ldpc-toolbox ber).
# usage: demo.sh <checkout>   (binary at <checkout>/target/debug/ldpc-toolbox)
# exit 0 = the property holds for everything that is exercised here.
BIN="$1/target/debug/ldpc-toolbox"
[ -x "$BIN" ] || { echo "no binary at $BIN"; exit 2; }
T=$(mktemp -d "${TMPDIR:-/tmp}/c13demo.XXXXXX") || exit 2
trap 'rm -rf "$T"' EXIT INT TERM
FAILS=0
fail() { echo "FAIL: $*"; FAILS=$((FAILS + 1)); }

cat > "$T/good.alist" <<'ALIST'
60 30
3 7
3 3 3 3 3 3 3 3 3 3 3 3 3 3 3 3 3 3 3 3 3 3 3 3 3 3 3 3 3 3 3 3 3 3 3 3 3 3 3 3 3 3 3 3 3 3 3 3 3 3 3 3 3 3 3 3 3 3 3 3
6 6 6 6 6 7 6 6 6 6 6 6 6 6 6 6 6 6 6 6 5 6 6 6 6 6 6 6 6 6
19 24 26
1 6 7
2 23 27
4 15 25
3 17 29
13 18 20
5 10 22
16 28 30
11 14 21
8 9 12
9 21 27
15 29 30
10 19 28
1 3 12
14 20 25
5 13 23
11 17 24
2 4 6
7 16 18
8 18 26
1 14 22
6 10 20
9 25 28
13 19 29
7 15 24
12 16 23
3 4 21
2 22 30
5 8 11
10 17 27
1 2 26
21 22 26
5 24 25
9 11 13
6 8 29
15 23 28
4 16 17
3 7 20
14 19 30
12 18 27
3 8 15
5 16 26
6 9 17
2 7 11
4 12 24
27 28 29
19 22 25
1 13 21
14 18 23
8 10 30
2 16 20
1 19 27
7 13 17
10 12 25
4 20 30
9 18 24
5 14 29
6 11 15
3 26 28
6 22 23
2 14 21 31 48 52 0
3 18 28 31 44 51 0
5 14 27 38 41 59 0
4 18 27 37 45 55 0
7 16 29 33 42 57 0
2 18 22 35 43 58 60
2 19 25 38 44 53 0
10 20 29 35 41 50 0
10 11 23 34 43 56 0
7 13 22 30 50 54 0
9 17 29 34 44 58 0
10 14 26 40 45 54 0
6 16 24 34 48 53 0
9 15 21 39 49 57 0
4 12 25 36 41 58 0
8 19 26 37 42 51 0
5 17 30 37 43 53 0
6 19 20 40 49 56 0
1 13 24 39 47 52 0
6 15 22 38 51 55 0
9 11 27 32 48 0 0
7 21 28 32 47 60 0
3 16 26 36 49 60 0
1 17 25 33 45 56 0
4 15 23 33 47 54 0
1 20 31 32 42 59 0
3 11 30 40 46 52 0
8 13 23 36 46 59 0
5 12 24 35 46 57 0
8 12 28 39 50 55 0

ALIST
cat > "$T/singular.alist" <<'ALIST'
60 30
3 7
3 3 3 3 3 3 3 3 3 3 3 3 3 3 3 3 3 3 3 3 3 3 3 3 3 3 3 3 3 3 3 3 3 3 3 3 3 3 3 3 3 3 3 3 3 3 3 3 3 3 3 3 3 3 3 3 3 3 3 3
6 6 6 6 6 6 6 6 6 6 5 6 6 6 6 7 6 6 6 6 6 6 6 6 6 6 6 6 6 6
10 17 23
15 18 30
20 25 28
16 19 27
6 14 24
5 21 29
1 2 9
3 22 26
4 7 13
8 11 12
9 10 30
3 14 21
2 16 26
8 18 25
13 17 24
4 27 28
5 11 23
7 12 22
6 15 19
1 20 29
5 9 27
8 14 16
17 21 25
1 11 24
23 26 28
2 7 18
12 15 29
3 4 10
13 19 20
6 9 22
16 21 30
1 5 18
13 26 29
7 14 23
3 20 30
8 24 28
12 17 27
19 22 25
4 6 11
2 10 19
9 15 28
1 16 23
3 13 18
12 24 30
6 25 27
10 21 22
11 17 26
4 5 8
14 15 20
2 17 29
1 7 30
3 5 19
7 8 20
9 18 23
10 24 26
6 16 28
2 15 21
14 27 29
4 16 22
12 13 25
7 20 24 32 42 51 0
7 13 26 40 50 57 0
8 12 28 35 43 52 0
9 16 28 39 48 59 0
6 17 21 32 48 52 0
5 19 30 39 45 56 0
9 18 26 34 51 53 0
10 14 22 36 48 53 0
7 11 21 30 41 54 0
1 11 28 40 46 55 0
10 17 24 39 47 0 0
10 18 27 37 44 60 0
9 15 29 33 43 60 0
5 12 22 34 49 58 0
2 19 27 41 49 57 0
4 13 22 31 42 56 59
1 15 23 37 47 50 0
2 14 26 32 43 54 0
4 19 29 38 40 52 0
3 20 29 35 49 53 0
6 12 23 31 46 57 0
8 18 30 38 46 59 0
1 17 25 34 42 54 0
5 15 24 36 44 55 0
3 14 23 38 45 60 0
8 13 25 33 47 55 0
4 16 21 37 45 58 0
3 16 25 36 41 56 0
6 20 27 33 50 58 0
2 11 31 35 44 51 0

ALIST
K=30

# run_ber <timeout-seconds> <stdout-file> args...  -> sets RC
run_ber() {
    _to=$1; _out=$2; shift 2
    if [ -n "$AFFINITY" ] && command -v taskset >/dev/null 2>&1; then
        timeout "$_to" taskset -c "$AFFINITY" "$BIN" ber "$@" >"$_out" 2>"$_out.err"
    else
        timeout "$_to" "$BIN" ber "$@" >"$_out" 2>"$_out.err"
    fi
    RC=$?
    [ "$RC" -eq 124 ] && fail "timeout (hang?) running: ber $*"
}

# check_table <file> <banner or -> <expected Eb/N0 list> <required frame errors>
# Verifies the layout of a result file and the exactness of every row.
check_table() {
    awk -v k="$K" -v banner="$2" -v ebn0s="$3" -v fe="$4" '
    function bad(msg) { print "  " FILENAME ": " msg; nbad++ }
    function close_to(printed, exact,    tol) {
        if (exact != exact || printed ~ /NaN/) return (printed ~ /NaN/ && exact != exact)
        tol = 0.0051 * exact; if (tol < 0) tol = -tol
        return (printed - exact <= tol + 1e-300) && (exact - printed <= tol + 1e-300)
    }
    BEGIN { n = split(ebn0s, want, " "); state = 0; rows = 0; nbad = 0 }
    NR == 1 { if ($0 != "BER TEST PARAMETERS") bad("first line is not the parameter title") }
    NR == 2 { if ($0 != "-------------------") bad("second line is not the rule") }
    state == 0 && /^ - Information bits \(k\): / { if ($NF != k) bad("wrong k") ; seenk = 1 }
    state == 0 && $0 == "LDPC+BCH results" { seenbanner = "LDPC+BCH results" }
    state == 0 && $0 == "LDPC-only results" { seenbanner = "LDPC-only results" }
    state == 0 && /^  Eb\/N0 \|   Frames \| Bit errs \| Frame er \| False de \|     BER \|     FER \| Avg iter \| Avg corr \| Throughp \| Elapsed$/ {
        if (prev != "") bad("no empty line before the table header")
        state = 1; prev = $0; next
    }
    state == 1 {
        if ($0 != "--------|----------|----------|----------|----------|---------|---------|----------|----------|----------|----------") bad("missing rule under the table header")
        state = 2; next
    }
    state == 2 {
        rows++
        m = split($0, f, "|")
        if (m != 11) { bad("row " rows " does not have 11 columns: " $0); next }
        for (i = 1; i <= m; i++) gsub(/^ +| +$/, "", f[i])
        if (rows <= n && f[1] + 0 != want[rows] + 0) bad("row " rows " is for Eb/N0 " f[1] ", expected " want[rows])
        frames = f[2] + 0; biterr = f[3] + 0; ferr = f[4] + 0; falsedec = f[5] + 0
        if (f[2] !~ /^[0-9]+$/ || f[3] !~ /^[0-9]+$/ || f[4] !~ /^[0-9]+$/ || f[5] !~ /^[0-9]+$/) bad("row " rows ": counts are not integers")
        if (fe >= 0 && ferr != fe) bad("row " rows ": " ferr " frame errors, the point must stop at exactly " fe)
        if (ferr > frames) bad("row " rows ": more frame errors than frames")
        if (falsedec > ferr && banner == "-") bad("row " rows ": more false decodes than frame errors")
        if (biterr < ferr) bad("row " rows ": fewer bit errors than frame errors")
        if (biterr > ferr * k) bad("row " rows ": more bit errors than systematic bits in wrong frames")
        if (frames > 0) {
            if (!close_to(f[6], biterr / (k * frames))) bad("row " rows ": BER " f[6] " is not " biterr "/(" k "*" frames ")")
            if (!close_to(f[7], ferr / frames)) bad("row " rows ": FER " f[7] " is not " ferr "/" frames)
        }
        next
    }
    { prev = $0 }
    END {
        if (!seenk) bad("parameter block incomplete")
        if (banner == "-" && seenbanner != "") bad("unexpected banner " seenbanner)
        if (banner != "-" && seenbanner != banner) bad("banner is \"" seenbanner "\" instead of \"" banner "\"")
        if (state != 2) bad("table header not found")
        if (rows != n) bad(rows " rows instead of " n)
        exit nbad > 0
    }' "$1" || fail "result file $1 is not right"
}

# compare_files <bch file> <ldpc file>: the two files describe the same frames
compare_files() {
    awk -F'|' '
    /^--------\|/ { intable[FILENAME] = 1; next }
    intable[FILENAME] && NF == 11 {
        r = ++rows[FILENAME]
        if (FILENAME == ARGV[1]) { fr[r] = $2 + 0; be[r] = $3 + 0; fe[r] = $4 + 0; fd[r] = $5 + 0; it[r] = $8 + 0 }
        else {
            if (fr[r] != $2 + 0) { print "  frames differ in row " r; nbad++ }
            if (fd[r] != $5 + 0) { print "  false decodes differ in row " r; nbad++ }
            if (it[r] != $8 + 0) { print "  average iterations differ in row " r; nbad++ }
            if (be[r] > $3 + 0) { print "  BCH bit errors exceed LDPC bit errors in row " r; nbad++ }
            if (fe[r] > $4 + 0) { print "  BCH frame errors exceed LDPC frame errors in row " r; nbad++ }
        }
    }
    END { if (rows[ARGV[1]] != rows[ARGV[2]]) { print "  different number of rows"; nbad++ } exit nbad > 0 }' "$1" "$2" ||
        fail "$1 and $2 do not describe the same frames"
}

for AFFINITY in "" 0 0-1 0-2 0-6; do
    tag=$(echo "aff$AFFINITY" | tr -c 'a-z0-9\n' '_')
    # (the number of workers is the number of CPUs that the process may use)
    if [ -n "$AFFINITY" ]; then
        taskset -c "$AFFINITY" true >/dev/null 2>&1 || { echo "taskset -c $AFFINITY not usable here, skipped"; continue; }
    fi

    # 1. plain LDPC, three Eb/N0 points, stale contents in the output file
    o="$T/$tag.plain.txt"
    i=0; while [ $i -lt 400 ]; do echo "STALE STALE STALE STALE STALE STALE STALE STALE STALE STALE STALE"; i=$((i + 1)); done > "$o"
    run_ber 120 "$T/$tag.plain.out" --min-ebn0 0.5 --max-ebn0 2.6 --step-ebn0 1 --frame-errors 7 \
        --output-file "$o" --output-file-ldpc "$T/$tag.plain.ldpc.txt" "$T/good.alist"
    [ "$RC" -eq 0 ] || fail "[$tag] plain run exited with $RC"
    check_table "$o" - "0.5 1.5 2.5" 7
    grep -q STALE "$o" && fail "[$tag] stale contents survived in the output file"
    [ -e "$T/$tag.plain.ldpc.txt" ] && fail "[$tag] LDPC-only file created without BCH"
    grep -q "^BER TEST PARAMETERS$" "$T/$tag.plain.out" || fail "[$tag] no parameters on stdout"
    grep -q " - Frame size (N): 60$" "$T/$tag.plain.out" || fail "[$tag] frame size missing on stdout"

    # 2. outer code with threshold 2, both files
    run_ber 120 "$T/$tag.bch.out" --min-ebn0 1 --max-ebn0 2.2 --step-ebn0 0.6 --frame-errors 4 --bch-max-errors 2 \
        --decoder Minstarapproxf32 --max-iter 20 \
        --output-file "$T/$tag.bch.txt" --output-file-ldpc "$T/$tag.ldpc.txt" "$T/good.alist"
    [ "$RC" -eq 0 ] || fail "[$tag] BCH run exited with $RC"
    check_table "$T/$tag.bch.txt" "LDPC+BCH results" "1 1.6 2.2" 4
    check_table "$T/$tag.ldpc.txt" "LDPC-only results" "1 1.6 2.2" -1
    compare_files "$T/$tag.bch.txt" "$T/$tag.ldpc.txt"
    grep -q "^ - Maximum bit errors correctable: 2$" "$T/$tag.bch.txt" || fail "[$tag] BCH parameters missing"

    # 3. LDPC-only file alone; puncturing and interleaving that fit; a single point
    run_ber 120 "$T/$tag.alone.out" --min-ebn0 3 --max-ebn0 3 --step-ebn0 1 --frame-errors 3 --bch-max-errors 1 \
        --puncturing 1,1,1,0 --interleaving=-3 --output-file-ldpc "$T/$tag.alone.txt" "$T/good.alist"
    [ "$RC" -eq 0 ] || fail "[$tag] LDPC-only-alone run exited with $RC"
    check_table "$T/$tag.alone.txt" "LDPC-only results" "3" -1
    grep -q "^ - Frame size (N): 45$" "$T/$tag.alone.txt" || fail "[$tag] punctured frame size missing"

    # 4. consecutive points with the same Eb/N0 (as f32) share one row
    run_ber 120 "$T/$tag.same.out" --min-ebn0 1 --max-ebn0 1.00000001 --step-ebn0 0.000000005 --frame-errors 3 \
        --output-file "$T/$tag.same.txt" "$T/good.alist"
    [ "$RC" -eq 0 ] || fail "[$tag] equal-Eb/N0 run exited with $RC"
    check_table "$T/$tag.same.txt" - "1" 3

    # 5. zero frame errors required: every point stops before counting any frame
    run_ber 120 "$T/$tag.zero.out" --min-ebn0 1 --max-ebn0 2 --step-ebn0 1 --frame-errors 0 \
        --output-file "$T/$tag.zero.txt" "$T/good.alist"
    [ "$RC" -eq 0 ] || fail "[$tag] zero-frame-errors run exited with $RC"
    check_table "$T/$tag.zero.txt" - "1 2" 0
    awk -F'|' '/^--------\|/ { t = 1; next } t && ($2 + 0 != 0 || $3 + 0 != 0) { exit 1 }' "$T/$tag.zero.txt" ||
        fail "[$tag] frames counted although no frame error was required"

    # 6. frames that cannot be processed: an error (not a hang, not success)
    run_ber 60 "$T/$tag.e1.out" --min-ebn0 1 --max-ebn0 2 --step-ebn0 1 --frame-errors 3 --puncturing 1,1,1,0,1,1,0 \
        --output-file "$T/$tag.e1.txt" "$T/good.alist"
    [ "$RC" -ne 0 ] || fail "[$tag] puncturing that does not fit was reported as success"
    grep -q "not divisible" "$T/$tag.e1.out.err" || fail "[$tag] no puncturing error message"
    run_ber 60 "$T/$tag.e2.out" --min-ebn0 1 --max-ebn0 2 --step-ebn0 1 --frame-errors 3 --interleaving 7 \
        --output-file "$T/$tag.e2.txt" "$T/good.alist"
    [ "$RC" -ne 0 ] || fail "[$tag] interleaver that does not fit was reported as success"
    run_ber 60 "$T/$tag.e3.out" --min-ebn0 1 --max-ebn0 2 --step-ebn0 1 --frame-errors 3 --modulation PSK8 --puncturing 1,1,0 \
        --output-file "$T/$tag.e3.txt" "$T/good.alist"
    [ "$RC" -ne 0 ] || fail "[$tag] modulator block size that does not fit was reported as success"
    for e in e1 e2 e3; do
        # whatever made it to the file must still be whole rows of whole frames
        awk -F'|' '/^--------\|/ { t = 1; next } t && NF != 11 { exit 1 } t && NF == 11 && $4 + 0 > $2 + 0 { exit 1 }' "$T/$tag.$e.txt" ||
            fail "[$tag] broken row in $e result file"
        [ "$(awk '/^--------\|/ { t = 1; next } t' "$T/$tag.$e.txt" | wc -l)" -le 1 ] || fail "[$tag] more than one row after a failed first point ($e)"
    done

    # 7. a parity check matrix without encoder: error before anything runs
    echo stale > "$T/$tag.sing.txt"
    run_ber 60 "$T/$tag.sing.out" --min-ebn0 1 --max-ebn0 2 --step-ebn0 1 --frame-errors 3 \
        --output-file "$T/$tag.sing.txt" "$T/singular.alist"
    [ "$RC" -ne 0 ] || fail "[$tag] singular parity check matrix was reported as success"
    [ -e "$T/$tag.sing.txt" ] && [ ! -s "$T/$tag.sing.txt" ] || fail "[$tag] output file is not empty after a failed build"
done

if [ "$FAILS" -eq 0 ]; then echo "C13 CLI demo: all checks passed"; exit 0; fi
echo "C13 CLI demo: $FAILS check(s) failed"; exit 1
