// Demonstration for property C17: sparse-matrix editing behaves like a set of
// (row, column) positions.
//
// A reference model (BTreeSet of positions) is driven with the same operation
// histories as a SparseMatrix, and after every operation all the observers of
// the matrix are compared with the model. Besides general random histories on
// many shapes (including empty shapes), this file emphasises removal-heavy
// histories (entries taken out from the front, the middle and the back of
// rows and columns, the only entry of a line, crossing clears), a larger
// matrix with a long random history, and the independence of clones.

use ldpc_toolbox::sparse::SparseMatrix;
use std::collections::BTreeSet;
use std::sync::mpsc;
use std::time::Duration;

struct Rng(u64);

impl Rng {
    fn next(&mut self) -> u64 {
        // splitmix64
        self.0 = self.0.wrapping_add(0x9e37_79b9_7f4a_7c15);
        let mut z = self.0;
        z = (z ^ (z >> 30)).wrapping_mul(0xbf58_476d_1ce4_e5b9);
        z = (z ^ (z >> 27)).wrapping_mul(0x94d0_49bb_1331_11eb);
        z ^ (z >> 31)
    }

    fn below(&mut self, n: usize) -> usize {
        assert!(n > 0);
        (self.next() % (n as u64)) as usize
    }

    fn list(&mut self, max_len: usize, bound: usize) -> Vec<usize> {
        let len = self.below(max_len + 1);
        (0..len).map(|_| self.below(bound)).collect()
    }
}

type Model = BTreeSet<(usize, usize)>;

fn check(h: &SparseMatrix, model: &Model, nrows: usize, ncols: usize, what: &str) {
    assert_eq!(h.num_rows(), nrows, "num_rows after {what}");
    assert_eq!(h.num_cols(), ncols, "num_cols after {what}");
    let mut total = 0;
    for r in 0..nrows {
        let expected: BTreeSet<usize> = model
            .range((r, 0)..=(r, usize::MAX))
            .map(|&(_, c)| c)
            .collect();
        let listed: Vec<usize> = h.iter_row(r).copied().collect();
        let as_set: BTreeSet<usize> = listed.iter().copied().collect();
        assert_eq!(listed.len(), as_set.len(), "duplicates in row {r} after {what}");
        assert_eq!(as_set, expected, "row {r} after {what}");
        assert_eq!(h.row_weight(r), expected.len(), "row weight {r} after {what}");
        assert_eq!(h.iter_row(r).len(), expected.len());
        for &c in &listed {
            assert!(c < ncols);
            assert!(
                h.iter_col(c).any(|&x| x == r),
                "row {r} lists column {c} but not conversely after {what}"
            );
        }
        total += listed.len();
    }
    let mut total_cols = 0;
    for c in 0..ncols {
        let expected: BTreeSet<usize> = model
            .iter()
            .filter(|&&(_, cc)| cc == c)
            .map(|&(r, _)| r)
            .collect();
        let listed: Vec<usize> = h.iter_col(c).copied().collect();
        let as_set: BTreeSet<usize> = listed.iter().copied().collect();
        assert_eq!(listed.len(), as_set.len(), "duplicates in col {c} after {what}");
        assert_eq!(as_set, expected, "col {c} after {what}");
        assert_eq!(h.col_weight(c), expected.len(), "col weight {c} after {what}");
        for &r in &listed {
            assert!(r < nrows);
            assert!(
                h.iter_row(r).any(|&x| x == c),
                "col {c} lists row {r} but not conversely after {what}"
            );
        }
        total_cols += listed.len();
    }
    assert_eq!(total, model.len());
    assert_eq!(total_cols, model.len());
    let all: Vec<(usize, usize)> = h.iter_all().collect();
    let all_set: Model = all.iter().copied().collect();
    assert_eq!(all.len(), all_set.len(), "duplicates in iter_all after {what}");
    assert_eq!(&all_set, model, "iter_all after {what}");
    for r in 0..nrows {
        for c in 0..ncols {
            assert_eq!(
                h.contains(r, c),
                model.contains(&(r, c)),
                "contains({r}, {c}) after {what}"
            );
        }
    }
}

fn check_alist(h: &SparseMatrix, model: &Model) {
    for text in [h.alist(), h.alist_no_padding()] {
        let back = SparseMatrix::from_alist(&text).unwrap();
        assert_eq!(back.num_rows(), h.num_rows());
        assert_eq!(back.num_cols(), h.num_cols());
        let set: Model = back.iter_all().collect();
        assert_eq!(&set, model);
        assert_eq!(back.alist(), h.alist());
    }
}

// Applies one random operation to the matrix and the model.
fn step(h: &mut SparseMatrix, model: &mut Model, nrows: usize, ncols: usize, rng: &mut Rng) -> String {
    let both = nrows > 0 && ncols > 0;
    let op = rng.below(14);
    match op {
        0..=2 if both => {
            let (r, c) = (rng.below(nrows), rng.below(ncols));
            let before = h.clone();
            let present = model.contains(&(r, c));
            h.insert(r, c);
            model.insert((r, c));
            if present {
                assert!(*h == before, "insert of a present entry changed the matrix");
                assert!(before == *h);
            } else {
                assert!(*h != before);
            }
            format!("insert({r}, {c})")
        }
        3..=4 if both => {
            let (r, c) = (rng.below(nrows), rng.below(ncols));
            let before = h.clone();
            let present = model.contains(&(r, c));
            h.remove(r, c);
            model.remove(&(r, c));
            if !present {
                assert!(*h == before, "remove of an absent entry changed the matrix");
                assert!(before == *h);
            } else {
                assert!(*h != before);
            }
            format!("remove({r}, {c})")
        }
        5..=6 if both => {
            let (r, c) = (rng.below(nrows), rng.below(ncols));
            let before = h.clone();
            h.toggle(r, c);
            if !model.remove(&(r, c)) {
                model.insert((r, c));
            }
            assert!(*h != before);
            format!("toggle({r}, {c})")
        }
        7 if nrows > 0 => {
            let r = rng.below(nrows);
            h.clear_row(r);
            model.retain(|&(rr, _)| rr != r);
            format!("clear_row({r})")
        }
        8 if ncols > 0 => {
            let c = rng.below(ncols);
            h.clear_col(c);
            model.retain(|&(_, cc)| cc != c);
            format!("clear_col({c})")
        }
        9 if nrows > 0 => {
            let r = rng.below(nrows);
            let l = if ncols > 0 { rng.list(2 * ncols, ncols) } else { vec![] };
            let mut twin = h.clone();
            if rng.below(2) == 0 {
                h.insert_row(r, l.iter());
            } else {
                h.insert_row(r, l.iter().copied());
            }
            for &c in &l {
                twin.insert(r, c);
                model.insert((r, c));
            }
            assert!(*h == twin, "insert_row differs from repeated insert");
            format!("insert_row({r}, {l:?})")
        }
        10 if ncols > 0 => {
            let c = rng.below(ncols);
            let l = if nrows > 0 { rng.list(2 * nrows, nrows) } else { vec![] };
            let mut twin = h.clone();
            if rng.below(2) == 0 {
                h.insert_col(c, l.iter());
            } else {
                h.insert_col(c, l.iter().copied());
            }
            for &r in &l {
                twin.insert(r, c);
                model.insert((r, c));
            }
            assert!(*h == twin, "insert_col differs from repeated insert");
            format!("insert_col({c}, {l:?})")
        }
        11 if nrows > 0 => {
            let r = rng.below(nrows);
            let l = if ncols > 0 { rng.list(2 * ncols, ncols) } else { vec![] };
            let mut twin = h.clone();
            h.set_row(r, l.iter());
            twin.clear_row(r);
            twin.insert_row(r, l.iter());
            model.retain(|&(rr, _)| rr != r);
            for &c in &l {
                model.insert((r, c));
            }
            assert!(*h == twin, "set_row differs from clear_row + insert_row");
            format!("set_row({r}, {l:?})")
        }
        12 if ncols > 0 => {
            let c = rng.below(ncols);
            let l = if nrows > 0 { rng.list(2 * nrows, nrows) } else { vec![] };
            let mut twin = h.clone();
            h.set_col(c, l.iter().copied());
            twin.clear_col(c);
            twin.insert_col(c, l.iter());
            model.retain(|&(_, cc)| cc != c);
            for &r in &l {
                model.insert((r, c));
            }
            assert!(*h == twin, "set_col differs from clear_col + insert_col");
            format!("set_col({c}, {l:?})")
        }
        _ => {
            // a clone is an independent, equal matrix
            let copy = h.clone();
            assert!(copy == *h);
            *h = copy;
            String::from("clone")
        }
    }
}

fn random_histories() {
    let shapes = [
        (0, 0),
        (0, 5),
        (5, 0),
        (1, 1),
        (1, 9),
        (9, 1),
        (2, 2),
        (3, 4),
        (8, 8),
        (13, 29),
        (31, 6),
    ];
    for (k, &(nrows, ncols)) in shapes.iter().enumerate() {
        for seed in 0..4u64 {
            let mut rng = Rng(0x1234_5678 + 1000 * k as u64 + seed);
            let mut h = SparseMatrix::new(nrows, ncols);
            let mut model = Model::new();
            check(&h, &model, nrows, ncols, "new");
            check_alist(&h, &model);
            for n in 0..400 {
                let what = step(&mut h, &mut model, nrows, ncols, &mut rng);
                check(&h, &model, nrows, ncols, &what);
                if n % 50 == 0 {
                    check_alist(&h, &model);
                }
            }
            check_alist(&h, &model);
        }
    }
}

// One line grows very long while the crossing lines stay short, then entries
// are taken out in various orders and the line regrows; this is repeated and
// mixed with clears, so that line storage is grown, moved, released and
// reclaimed many times.
fn long_lines() {
    let (nrows, ncols) = (6, 700);
    let mut rng = Rng(77);
    let mut h = SparseMatrix::new(nrows, ncols);
    let mut model = Model::new();
    for round in 0..6 {
        let r = round % nrows;
        // grow a row, interleaving with inserts in other rows
        for c in 0..ncols {
            let c = (c * 37 + round) % ncols;
            h.insert(r, c);
            model.insert((r, c));
            if c % 5 == 0 {
                let rr = rng.below(nrows);
                let cc = rng.below(ncols);
                h.toggle(rr, cc);
                if !model.remove(&(rr, cc)) {
                    model.insert((rr, cc));
                }
            }
        }
        check(&h, &model, nrows, ncols, "long row grown");
        // remove from the front, the back and the middle
        for c in (0..ncols).step_by(3) {
            h.remove(r, c);
            model.remove(&(r, c));
        }
        for c in (0..ncols).rev().step_by(7) {
            h.toggle(r, c);
            if !model.remove(&(r, c)) {
                model.insert((r, c));
            }
        }
        check(&h, &model, nrows, ncols, "long row thinned");
        match round % 3 {
            0 => {
                h.clear_row(r);
                model.retain(|&(rr, _)| rr != r);
            }
            1 => {
                let l: Vec<usize> = (0..ncols).rev().chain(0..ncols).collect();
                h.set_row(r, l.iter());
                for c in 0..ncols {
                    model.insert((r, c));
                }
            }
            _ => {
                for c in (0..ncols).step_by(2) {
                    h.clear_col(c);
                    model.retain(|&(_, cc)| cc != c);
                }
            }
        }
        check(&h, &model, nrows, ncols, "after bulk edit of long row");
        let copy = h.clone();
        // no-ops leave the matrix equal to what it was
        for &(rr, cc) in model.iter().take(50) {
            h.insert(rr, cc);
        }
        for c in 0..ncols {
            if !model.contains(&(r, c)) {
                h.remove(r, c);
            }
        }
        assert!(h == copy);
        check(&h, &model, nrows, ncols, "no-ops");
    }
    // same thing transposed: a long column
    let (nrows, ncols) = (500, 3);
    let mut h = SparseMatrix::new(nrows, ncols);
    let mut model = Model::new();
    for round in 0..4 {
        let c = round % ncols;
        h.insert_col(c, (0..nrows).rev());
        for r in 0..nrows {
            model.insert((r, c));
        }
        check(&h, &model, nrows, ncols, "long col grown");
        for r in (0..nrows).step_by(2) {
            h.remove(r, c);
            model.remove(&(r, c));
        }
        h.set_col((c + 1) % ncols, (0..nrows).filter(|r| r % 3 == 0));
        model.retain(|&(_, cc)| cc != (c + 1) % ncols);
        for r in (0..nrows).filter(|r| r % 3 == 0) {
            model.insert((r, (c + 1) % ncols));
        }
        check(&h, &model, nrows, ncols, "long col edited");
        if round == 2 {
            for r in 0..nrows {
                h.clear_row(r);
            }
            model.clear();
            check(&h, &model, nrows, ncols, "all rows cleared");
            assert!(h == SparseMatrix::new(nrows, ncols));
        }
    }
    check_alist(&h, &model);
}

// Matrices that went through different amounts of internal churn but the same
// final sequence of effective edits compare equal; matrices with different
// sets or different dimensions do not.
fn equality() {
    let mut a = SparseMatrix::new(5, 40);
    let mut b = SparseMatrix::new(5, 40);
    // churn in b only, net effect nothing
    for c in 0..40 {
        b.insert(2, c);
    }
    for c in 0..40 {
        b.toggle(2, c);
    }
    b.insert_col(7, 0..5);
    b.clear_col(7);
    assert!(a == b);
    for (r, c) in [(0, 3), (4, 39), (2, 2), (2, 3), (0, 0)] {
        a.insert(r, c);
        b.insert(r, c);
    }
    assert!(a == b && b == a);
    b.remove(2, 3);
    assert!(a != b);
    b.insert(2, 4);
    assert!(a != b);
    assert!(SparseMatrix::new(2, 3) != SparseMatrix::new(3, 2));
    assert!(SparseMatrix::new(0, 3) != SparseMatrix::new(0, 4));
    assert!(SparseMatrix::new(0, 0) == SparseMatrix::new(0, 0));
}

fn toggle_both(h: &mut SparseMatrix, model: &mut Model, r: usize, c: usize) {
    h.toggle(r, c);
    if !model.remove(&(r, c)) {
        model.insert((r, c));
    }
}

// Entries are taken out in every possible place of the lines that hold them.
fn removal_heavy() {
    let (nrows, ncols) = (6, 7);
    // for every entry of a full matrix: remove it alone, then put it back
    let mut h = SparseMatrix::new(nrows, ncols);
    let mut model = Model::new();
    for r in 0..nrows {
        for c in 0..ncols {
            h.insert(r, c);
            model.insert((r, c));
        }
    }
    for r in 0..nrows {
        for c in 0..ncols {
            h.remove(r, c);
            model.remove(&(r, c));
            check(&h, &model, nrows, ncols, &format!("remove({r}, {c}) from full"));
            h.remove(r, c);
            check(&h, &model, nrows, ncols, &format!("second remove({r}, {c})"));
            toggle_both(&mut h, &mut model, r, c);
            check(&h, &model, nrows, ncols, &format!("toggle({r}, {c}) back"));
        }
    }
    // empty the matrix entry by entry in several orders, refilling in between
    let orders: [fn(usize, usize) -> usize; 4] = [
        |i, _n| i,
        |i, n| n - 1 - i,
        |i, n| (i * 5 + 3) % n,
        |i, n| if i % 2 == 0 { i / 2 } else { n - 1 - i / 2 },
    ];
    for (k, order) in orders.iter().enumerate() {
        let n = nrows * ncols;
        for i in 0..n {
            let p = order(i, n);
            let (r, c) = if k % 2 == 0 { (p / ncols, p % ncols) } else { (p % nrows, p / nrows) };
            assert!(model.contains(&(r, c)));
            if i % 2 == 0 {
                h.remove(r, c);
                model.remove(&(r, c));
            } else {
                toggle_both(&mut h, &mut model, r, c);
            }
            check(&h, &model, nrows, ncols, &format!("emptying, order {k}, step {i}"));
        }
        assert!(model.is_empty());
        assert!(h == SparseMatrix::new(nrows, ncols));
        // refill in a different order each time
        for i in 0..n {
            let p = (i * 11 + k) % n;
            let (r, c) = (p % nrows, p / nrows);
            if i % 3 == 0 {
                toggle_both(&mut h, &mut model, r, c);
            } else {
                h.insert(r, c);
                model.insert((r, c));
            }
        }
        check(&h, &model, nrows, ncols, "refilled");
    }
    // single-entry lines, and clears that cross each other
    let mut h = SparseMatrix::new(nrows, ncols);
    let mut model = Model::new();
    h.insert(2, 3);
    model.insert((2, 3));
    h.clear_col(3);
    model.clear();
    check(&h, &model, nrows, ncols, "clear_col of single entry");
    h.insert(2, 3);
    h.clear_row(2);
    check(&h, &model, nrows, ncols, "clear_row of single entry");
    h.clear_row(2);
    h.clear_col(3);
    check(&h, &model, nrows, ncols, "clears of empty lines");
    let mut rng = Rng(31337);
    for n in 0..300 {
        // fill a cross and some noise
        let (r0, c0) = (rng.below(nrows), rng.below(ncols));
        for c in 0..ncols {
            if rng.below(4) != 0 {
                h.insert(r0, c);
                model.insert((r0, c));
            }
        }
        for r in 0..nrows {
            if rng.below(4) != 0 {
                h.insert(r, c0);
                model.insert((r, c0));
            }
        }
        for _ in 0..6 {
            let (r, c) = (rng.below(nrows), rng.below(ncols));
            toggle_both(&mut h, &mut model, r, c);
        }
        check(&h, &model, nrows, ncols, "cross filled");
        if n % 2 == 0 {
            h.clear_row(r0);
            model.retain(|&(r, _)| r != r0);
            check(&h, &model, nrows, ncols, "cross: row cleared");
            h.clear_col(c0);
            model.retain(|&(_, c)| c != c0);
        } else {
            h.clear_col(c0);
            model.retain(|&(_, c)| c != c0);
            check(&h, &model, nrows, ncols, "cross: col cleared");
            h.clear_row(r0);
            model.retain(|&(r, _)| r != r0);
        }
        check(&h, &model, nrows, ncols, "cross cleared");
        if n % 25 == 0 {
            for r in 0..nrows {
                h.set_row(r, std::iter::empty::<usize>());
            }
            model.clear();
            check(&h, &model, nrows, ncols, "all rows set to nothing");
        }
    }
    check_alist(&h, &model);
}

// A larger matrix with a long history; full checks from time to time.
fn large_random() {
    let (nrows, ncols) = (60, 90);
    let mut rng = Rng(2024);
    let mut h = SparseMatrix::new(nrows, ncols);
    let mut model = Model::new();
    for n in 0..15_000 {
        let what = step(&mut h, &mut model, nrows, ncols, &mut rng);
        if n % 1500 == 0 {
            check(&h, &model, nrows, ncols, &what);
        }
        // cheap checks every time
        let r = rng.below(nrows);
        let c = rng.below(ncols);
        assert_eq!(h.contains(r, c), model.contains(&(r, c)));
        assert_eq!(h.iter_row(r).any(|&x| x == c), model.contains(&(r, c)));
        assert_eq!(h.iter_col(c).any(|&x| x == r), model.contains(&(r, c)));
    }
    check(&h, &model, nrows, ncols, "end of long history");
    check_alist(&h, &model);
    assert_eq!(h.iter_all().count(), model.len());
}

// A clone does not share anything with the original.
fn clone_independence() {
    let (nrows, ncols) = (8, 8);
    let mut rng = Rng(5);
    let mut a = SparseMatrix::new(nrows, ncols);
    let mut model_a = Model::new();
    for _ in 0..100 {
        step(&mut a, &mut model_a, nrows, ncols, &mut rng);
    }
    let mut b = a.clone();
    let mut model_b = model_a.clone();
    assert!(a == b);
    for n in 0..300 {
        let what = step(&mut b, &mut model_b, nrows, ncols, &mut rng);
        check(&a, &model_a, nrows, ncols, "edit of the clone (original)");
        check(&b, &model_b, nrows, ncols, &what);
        if model_a != model_b {
            assert!(a != b && b != a);
        }
        if n % 3 == 0 {
            step(&mut a, &mut model_a, nrows, ncols, &mut rng);
            check(&b, &model_b, nrows, ncols, "edit of the original (clone)");
        }
    }
    // out-of-range row with a valid column: just not there
    assert!(!a.contains(nrows, 0));
    assert!(!a.contains(usize::MAX, ncols - 1));
    let text = format!("{a:?}");
    assert!(text.starts_with("SparseMatrix"));
}

fn with_timeout<F: FnOnce() + Send + 'static>(name: &'static str, f: F) {
    let (tx, rx) = mpsc::channel();
    std::thread::spawn(move || {
        f();
        let _ = tx.send(());
    });
    match rx.recv_timeout(Duration::from_secs(300)) {
        Ok(()) => {}
        Err(mpsc::RecvTimeoutError::Timeout) => panic!("{name} timed out"),
        Err(mpsc::RecvTimeoutError::Disconnected) => panic!("{name} failed"),
    }
}

#[test]
fn sparse_random_histories_agree_with_set_model() {
    with_timeout("random_histories", random_histories);
}

#[test]
fn sparse_long_lines_agree_with_set_model() {
    with_timeout("long_lines", long_lines);
}

#[test]
fn sparse_equality() {
    with_timeout("equality", equality);
}

#[test]
fn sparse_removal_heavy_agrees_with_set_model() {
    with_timeout("removal_heavy", removal_heavy);
}

#[test]
fn sparse_large_random_agrees_with_set_model() {
    with_timeout("large_random", large_random);
}

#[test]
fn sparse_clone_independence() {
    with_timeout("clone_independence", clone_independence);
}
