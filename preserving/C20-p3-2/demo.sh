#!/bin/sh
# Demonstration for C20 (ber part): the ber subcommand writes one result line
# per requested Eb/N0 whose numbers satisfy the statistics identities, to every
# requested result file (and the same lines are shown on the standard output),
# and invalid arguments or files give a non-zero exit status with a message
# and no panic.
#
# usage: demo.sh <checkout>      (binary at <checkout>/target/debug/ldpc-toolbox)

BIN="$1/target/debug/ldpc-toolbox"
[ -x "$BIN" ] || { echo "binary not found: $BIN" >&2; exit 2; }
T=$(mktemp -d "${TMPDIR:-/tmp}/c20p3-2.XXXXXX") || exit 2
trap 'rm -rf "$T"' EXIT INT TERM
FAILS=0

fail() {
    echo "FAIL: $*" >&2
    FAILS=$((FAILS + 1))
}

if command -v timeout >/dev/null 2>&1; then
    run() { timeout 300 "$@"; }
else
    run() { "$@"; }
fi

HEADER1='  Eb/N0 |   Frames | Bit errs | Frame er | False de |     BER |     FER | Avg iter | Avg corr | Throughp | Elapsed'
HEADER2='--------|----------|----------|----------|----------|---------|---------|----------|----------|----------|----------'

# table_lines <file>: prints the lines that follow the table header; fails if
# the header is not there exactly once
table_lines() {
    awk -v h1="$HEADER1" -v h2="$HEADER2" '
        $0 == h1 { seen1++; next1 = NR + 1; next }
        NR == next1 && $0 == h2 { seen2++; intable = 1; next }
        intable { print }
        END { if (seen1 != 1 || seen2 != 1) exit 1 }' "$1"
}

# check_table <file> <k> <frame errors> <max iter> <expected Eb/N0 list>
# one line per Eb/N0, in order, with consistent numbers
check_table() {
    table_lines "$1" > "$T/lines.txt" || { fail "$1: table header missing or repeated"; return; }
    awk -F'|' -v k="$2" -v target="$3" -v maxiter="$4" -v expected="$5" '
    function num(s) { gsub(/ /, "", s); return s }
    function close_enough(shown, exact) {
        if (exact == 0) return shown == 0
        d = shown - exact; if (d < 0) d = -d
        return d <= 0.0051 * exact
    }
    BEGIN { n = split(expected, want, " ") }
    {
        lines++
        if (NF != 11) { print "line " NR ": " NF " columns"; bad = 1; next }
        ebn0 = num($1); frames = num($2); biterrs = num($3); frameerrs = num($4); falsedec = num($5)
        ber = num($6); fer = num($7); avgiter = num($8); avgcorr = num($9); thr = num($10)
        if (lines > n || ebn0 + 0 != want[lines] + 0) { print "line " NR ": unexpected Eb/N0 " ebn0; bad = 1 }
        if (frames !~ /^[0-9]+$/ || biterrs !~ /^[0-9]+$/ || frameerrs !~ /^[0-9]+$/ || falsedec !~ /^[0-9]+$/) {
            print "line " NR ": counters are not integers"; bad = 1; next
        }
        if (frameerrs + 0 < target + 0) { print "line " NR ": only " frameerrs " frame errors"; bad = 1 }
        if (frameerrs + 0 > frames + 0) { print "line " NR ": more frame errors than frames"; bad = 1 }
        if (biterrs + 0 < frameerrs + 0) { print "line " NR ": fewer bit errors than frame errors"; bad = 1 }
        if (biterrs + 0 > k * frames) { print "line " NR ": too many bit errors"; bad = 1 }
        if (falsedec + 0 > frameerrs + 0) { print "line " NR ": more false decodes than frame errors"; bad = 1 }
        if (frames + 0 > 0) {
            if (!close_enough(ber + 0, biterrs / (k * frames))) { print "line " NR ": BER " ber " is not " biterrs "/(" k "*" frames ")"; bad = 1 }
            if (!close_enough(fer + 0, frameerrs / frames)) { print "line " NR ": FER " fer " is not " frameerrs "/" frames; bad = 1 }
            if (avgiter + 0 < 0 || avgiter + 0 > maxiter + 0.05) { print "line " NR ": average iterations " avgiter; bad = 1 }
            if (frames + 0 > frameerrs + 0 && (avgcorr + 0 < 0 || avgcorr + 0 > maxiter + 0.05)) {
                print "line " NR ": average iterations (correct) " avgcorr; bad = 1
            }
        }
    }
    END {
        if (lines != n) { print lines " lines, expected " n; bad = 1 }
        exit bad
    }' "$T/lines.txt" || fail "$1: wrong results table"
}

# check_preamble <file> <k> <n_cw> <n>
check_preamble() {
    [ "$(head -n 1 "$1")" = "BER TEST PARAMETERS" ] || fail "$1: first line"
    grep -q -x " - Information bits (k): $2" "$1" || fail "$1: k"
    grep -q -x " - Codeword size (N_cw): $3" "$1" || fail "$1: N_cw"
    grep -q -x " - Frame size (N): $4" "$1" || fail "$1: N"
}

# shown_on_stdout <file> <stdout>: every line of the table of the file has been
# shown on the standard output
shown_on_stdout() {
    table_lines "$1" > "$T/lines.txt" || return
    while IFS= read -r line; do
        grep -q -F -- "$line" "$2" || fail "$1: line not shown on stdout: $line"
    done < "$T/lines.txt"
    grep -q -F -- "$HEADER1" "$2" || fail "$2: no table header"
    grep -q -x "BER TEST PARAMETERS" "$2" || fail "$2: no parameters"
}

expect_error() {
    name="$1"
    shift
    run "$@" > "$T/stdout.txt" 2> "$T/stderr.txt"
    status=$?
    [ "$status" -ne 0 ] || fail "$name: exit status is zero"
    [ "$status" -lt 100 ] || fail "$name: exit status $status (panic, signal or timeout)"
    [ -s "$T/stderr.txt" ] || fail "$name: no message"
    if grep -q -i "panicked" "$T/stderr.txt"; then fail "$name: panic"; fi
}

# ---------------------------------------------------------------- code
run "$BIN" peg 50 100 3 1 > "$T/peg.raw" || fail "peg"
run "$BIN" systematic "$T/peg.raw" > "$T/code.alist" || fail "systematic"
A="$T/code.alist"

# ---------------------------------------------------------------- plain runs
round=0
while [ "$round" -lt 5 ]; do
    round=$((round + 1))
    rm -f "$T/res.txt"
    run "$BIN" ber "$A" --min-ebn0=-1 --max-ebn0 1 --step-ebn0 0.5 --frame-errors 20 --max-iter 10 \
        --output-file "$T/res.txt" > "$T/out.txt" 2> "$T/err.txt" || fail "plain run $round: exit status"
    check_preamble "$T/res.txt" 50 100 100
    check_table "$T/res.txt" 50 20 10 "-1 -0.5 0 0.5 1"
    shown_on_stdout "$T/res.txt" "$T/out.txt"
done

# no result file
run "$BIN" ber "$A" --min-ebn0 0 --max-ebn0 0.6 --step-ebn0 0.25 --frame-errors 10 --max-iter 5 \
    > "$T/out.txt" 2> "$T/err.txt" || fail "run without files: exit status"
grep -q -F -- "$HEADER1" "$T/out.txt" || fail "run without files: no table"
for e in 0.00 0.25 0.50; do
    grep -q -F -- "  $e |" "$T/out.txt" || fail "run without files: Eb/N0 $e not shown"
done

# a single Eb/N0, other decoders
for dec in Phif32 Minstarapproxi8 HLPhif64; do
    run "$BIN" ber "$A" --min-ebn0 0.5 --max-ebn0 0.5 --step-ebn0 1 --frame-errors 15 --max-iter 7 \
        --decoder "$dec" --output-file "$T/single.txt" > "$T/out.txt" 2> "$T/err.txt" || fail "single $dec: exit status"
    check_table "$T/single.txt" 50 15 7 "0.5"
    shown_on_stdout "$T/single.txt" "$T/out.txt"
    grep -q -x " - Implementation: $dec" "$T/single.txt" || fail "single $dec: implementation"
done

# zero frame errors requested: every Eb/N0 finishes at once, but still has a line
run "$BIN" ber "$A" --min-ebn0 0 --max-ebn0 3 --step-ebn0 1 --frame-errors 0 \
    --output-file "$T/zero.txt" > "$T/out.txt" 2> "$T/err.txt" || fail "zero frame errors: exit status"
check_table "$T/zero.txt" 50 0 100 "0 1 2 3"

# a longer run: there are several progress reports for each Eb/N0, but only one
# line per Eb/N0 in the file
run "$BIN" ber "$A" --min-ebn0 0 --max-ebn0 1 --step-ebn0 1 --frame-errors 5000 --max-iter 10 \
    --output-file "$T/long.txt" > "$T/out.txt" 2> "$T/err.txt" || fail "long run: exit status"
check_table "$T/long.txt" 50 5000 10 "0 1"
shown_on_stdout "$T/long.txt" "$T/out.txt"

# ---------------------------------------------------------------- puncturing, interleaving, 8PSK
run "$BIN" ber "$A" --min-ebn0 0 --max-ebn0 1 --step-ebn0 0.5 --frame-errors 20 --max-iter 10 \
    --puncturing 1,1,1,0 --interleaving 3 --modulation PSK8 \
    --output-file "$T/punct.txt" > "$T/out.txt" 2> "$T/err.txt" || fail "punctured run: exit status"
check_preamble "$T/punct.txt" 50 100 75
check_table "$T/punct.txt" 50 20 10 "0 0.5 1"
shown_on_stdout "$T/punct.txt" "$T/out.txt"
grep -q -x " - Puncturing pattern: 1,1,1,0" "$T/punct.txt" || fail "punctured run: pattern"
grep -q -x " - Interleaving columns: 3" "$T/punct.txt" || fail "punctured run: interleaving"
grep -q -x " - Modulation: 8PSK" "$T/punct.txt" || fail "punctured run: modulation"

# ---------------------------------------------------------------- BCH: two files
round=0
while [ "$round" -lt 3 ]; do
    round=$((round + 1))
    rm -f "$T/bch.txt" "$T/ldpc.txt"
    run "$BIN" ber "$A" --min-ebn0 0 --max-ebn0 1 --step-ebn0 0.5 --frame-errors 20 --max-iter 10 \
        --bch-max-errors 3 --output-file "$T/bch.txt" --output-file-ldpc "$T/ldpc.txt" \
        > "$T/out.txt" 2> "$T/err.txt" || fail "BCH run $round: exit status"
    check_preamble "$T/bch.txt" 50 100 100
    check_preamble "$T/ldpc.txt" 50 100 100
    grep -q -x "LDPC+BCH results" "$T/bch.txt" || fail "BCH run: title"
    grep -q -x "LDPC-only results" "$T/ldpc.txt" || fail "BCH run: LDPC title"
    check_table "$T/bch.txt" 50 20 10 "0 0.5 1"
    # the LDPC decoder alone fails at least as often as LDPC plus BCH
    check_table "$T/ldpc.txt" 50 20 10 "0 0.5 1"
    shown_on_stdout "$T/bch.txt" "$T/out.txt"
    table_lines "$T/bch.txt" > "$T/bch.lines"
    table_lines "$T/ldpc.txt" > "$T/ldpc.lines"
    paste -d'|' "$T/bch.lines" "$T/ldpc.lines" | awk -F'|' '
        function num(s) { gsub(/ /, "", s); return s + 0 }
        {
            if (num($1) != num($12) || num($2) != num($13)) { print "line " NR ": Eb/N0 or frames differ"; bad = 1 }
            if (num($3) > num($14) || num($4) > num($15)) { print "line " NR ": BCH has more errors than LDPC"; bad = 1 }
            if (num($5) != num($16)) { print "line " NR ": false decodes differ"; bad = 1 }
            if ($8 != $19 || $10 != $21 || $11 != $22) { print "line " NR ": common columns differ"; bad = 1 }
        }
        END { exit bad }' || fail "BCH run: the two files do not match"
done

# the LDPC-only file is only used with BCH
rm -f "$T/unused.txt"
run "$BIN" ber "$A" --min-ebn0 0 --max-ebn0 0 --step-ebn0 1 --frame-errors 5 --max-iter 5 \
    --output-file "$T/used.txt" --output-file-ldpc "$T/unused.txt" > "$T/out.txt" 2> "$T/err.txt" \
    || fail "run with unused LDPC file: exit status"
check_table "$T/used.txt" 50 5 5 "0"
[ ! -e "$T/unused.txt" ] || fail "LDPC-only file created without BCH"

# only the LDPC-only file
run "$BIN" ber "$A" --min-ebn0 0 --max-ebn0 0.5 --step-ebn0 0.5 --frame-errors 10 --max-iter 5 \
    --bch-max-errors 2 --output-file-ldpc "$T/only-ldpc.txt" > "$T/out.txt" 2> "$T/err.txt" \
    || fail "run with only the LDPC file: exit status"
check_table "$T/only-ldpc.txt" 50 0 5 "0 0.5"

# ---------------------------------------------------------------- errors
expect_error "missing alist" "$BIN" ber "$T/does-not-exist" --min-ebn0 0 --max-ebn0 1 --step-ebn0 1
printf 'not an alist\n' > "$T/bad.alist"
expect_error "bad alist" "$BIN" ber "$T/bad.alist" --min-ebn0 0 --max-ebn0 1 --step-ebn0 1
expect_error "bad pattern" "$BIN" ber "$A" --min-ebn0 0 --max-ebn0 1 --step-ebn0 1 --puncturing 1,2
expect_error "bad pattern (empty element)" "$BIN" ber "$A" --min-ebn0 0 --max-ebn0 1 --step-ebn0 1 --puncturing 1,,1
expect_error "output in missing directory" "$BIN" ber "$A" --min-ebn0 0 --max-ebn0 1 --step-ebn0 1 \
    --output-file "$T/no-dir/res.txt"
expect_error "LDPC output in missing directory" "$BIN" ber "$A" --min-ebn0 0 --max-ebn0 1 --step-ebn0 1 \
    --bch-max-errors 1 --output-file-ldpc "$T/no-dir/res.txt"
expect_error "unknown decoder" "$BIN" ber "$A" --min-ebn0 0 --max-ebn0 1 --step-ebn0 1 --decoder Nothing
expect_error "unknown modulation" "$BIN" ber "$A" --min-ebn0 0 --max-ebn0 1 --step-ebn0 1 --modulation QPSK
expect_error "missing arguments" "$BIN" ber "$A" --min-ebn0 0
# the pattern does not fit the codeword: the simulation fails when it starts
expect_error "pattern that does not fit" "$BIN" ber "$A" --min-ebn0 0 --max-ebn0 1 --step-ebn0 0.5 \
    --puncturing 1,1,0 --output-file "$T/nofit.txt"
# not encodable
printf '4 2\n1 2\n1 1 0 0\n2 0\n1\n1\n0\n0\n1 2\n0 0\n' > "$T/singular.alist"
expect_error "singular alist" "$BIN" ber "$T/singular.alist" --min-ebn0 0 --max-ebn0 1 --step-ebn0 1

if [ "$FAILS" -ne 0 ]; then
    echo "$FAILS check(s) failed" >&2
    exit 1
fi
echo "ber: all checks passed"
exit 0
