// Demonstration for property C12 (the BER chain hands the decoder correctly
// ordered, correctly scaled LLRs), focused on the channel: the noise must be
// zero-mean Gaussian, independent between samples and between the real and
// imaginary parts, with the per-dimension variance that corresponds to the
// requested Eb/N0 (rate counted after puncturing, bits per symbol of the
// modulation).
//
// Part 1 applies statistical tests to AwgnChannel driven by a deterministic
// generator (so the outcome is reproducible).
//
// Part 2 runs the complete BER chain with a recording decoder: at a very high
// Eb/N0 it checks the lengths, the exact zeros and the signs; at moderate
// Eb/N0 it estimates the noise variance from what the decoder receives (BPSK)
// or from the raw bit error rate (8PSK, compared with a Monte Carlo
// simulation of the documented constellation done here).

use ldpc_toolbox::{
    decoder::{DecoderOutput, LdpcDecoder, factory::DecoderFactory},
    encoder::Encoder,
    gf2::GF2,
    simulation::{
        channel::{AwgnChannel, Channel},
        factory::{BerTestBuilder, Modulation},
    },
    sparse::SparseMatrix,
};
use ndarray::Array1;
use num_complex::Complex;
use num_traits::{One, Zero};
use rand::RngCore;
use std::{
    fmt::Display,
    panic::{AssertUnwindSafe, catch_unwind},
    sync::{
        Arc, Mutex,
        atomic::{AtomicBool, Ordering},
        mpsc,
    },
    time::Duration,
};

// ---------------------------------------------------------------- utilities

// SplitMix64, used as a deterministic source of randomness.
struct SplitMix(u64);

impl SplitMix {
    fn next(&mut self) -> u64 {
        self.0 = self.0.wrapping_add(0x9e3779b97f4a7c15);
        let mut z = self.0;
        z = (z ^ (z >> 30)).wrapping_mul(0xbf58476d1ce4e5b9);
        z = (z ^ (z >> 27)).wrapping_mul(0x94d049bb133111eb);
        z ^ (z >> 31)
    }

    fn below(&mut self, n: usize) -> usize {
        ((self.next() >> 11) % n as u64) as usize
    }

    // uniform in (0, 1)
    fn unit(&mut self) -> f64 {
        ((self.next() >> 11) as f64 + 0.5) / (1u64 << 53) as f64
    }

    // standard normal (Box-Muller)
    fn gaussian(&mut self) -> f64 {
        let r = (-2.0 * self.unit().ln()).sqrt();
        r * (2.0 * std::f64::consts::PI * self.unit()).cos()
    }
}

impl RngCore for SplitMix {
    fn next_u32(&mut self) -> u32 {
        (self.next() >> 32) as u32
    }

    fn next_u64(&mut self) -> u64 {
        self.next()
    }

    fn fill_bytes(&mut self, dest: &mut [u8]) {
        for chunk in dest.chunks_mut(8) {
            let bytes = self.next().to_le_bytes();
            chunk.copy_from_slice(&bytes[..chunk.len()]);
        }
    }
}

fn with_timeout<F: FnOnce() + Send + 'static>(seconds: u64, f: F) {
    let (tx, rx) = mpsc::channel();
    std::thread::spawn(move || {
        f();
        let _ = tx.send(());
    });
    match rx.recv_timeout(Duration::from_secs(seconds)) {
        Ok(()) => (),
        Err(mpsc::RecvTimeoutError::Timeout) => panic!("timed out"),
        Err(mpsc::RecvTimeoutError::Disconnected) => panic!("the test body panicked"),
    }
}

fn gf2(bit: bool) -> GF2 {
    if bit { GF2::one() } else { GF2::zero() }
}

fn panics<R>(f: impl FnOnce() -> R) -> bool {
    catch_unwind(AssertUnwindSafe(f)).is_err()
}

fn mean(x: &[f64]) -> f64 {
    x.iter().sum::<f64>() / x.len() as f64
}

fn correlation(a: &[f64], b: &[f64]) -> f64 {
    let n = a.len().min(b.len());
    let (a, b) = (&a[..n], &b[..n]);
    let (ma, mb) = (mean(a), mean(b));
    let cov = a.iter().zip(b).map(|(x, y)| (x - ma) * (y - mb)).sum::<f64>();
    let va = a.iter().map(|x| (x - ma).powi(2)).sum::<f64>();
    let vb = b.iter().map(|y| (y - mb).powi(2)).sum::<f64>();
    cov / (va * vb).sqrt()
}

// Number of standard deviations allowed to the statistics of part 1 (the
// generator is deterministic, so the outcome of these tests is reproducible).
const Z: f64 = 5.0;

// Checks that the samples look like independent N(0, sigma^2) samples.
fn check_gaussian_samples(w: &[f64], sigma: f64, what: &str) {
    let n = w.len() as f64;
    let z = w.iter().map(|x| x / sigma).collect::<Vec<_>>();
    let m1 = mean(&z);
    assert!(m1.abs() < Z / n.sqrt(), "{what}: mean {m1}");
    let m2 = z.iter().map(|x| x.powi(2)).sum::<f64>() / n;
    assert!((m2 - 1.0).abs() < Z * (2.0 / n).sqrt(), "{what}: variance {m2}");
    let m3 = z.iter().map(|x| x.powi(3)).sum::<f64>() / n;
    assert!(m3.abs() < Z * (15.0 / n).sqrt(), "{what}: third moment {m3}");
    let m4 = z.iter().map(|x| x.powi(4)).sum::<f64>() / n;
    assert!((m4 - 3.0).abs() < Z * (96.0 / n).sqrt(), "{what}: fourth moment {m4}");
    let m6 = z.iter().map(|x| x.powi(6)).sum::<f64>() / n;
    // Var(z^6) = E[z^12] - 15^2 = 10395 - 225
    // (the distribution of this statistic is far from normal)
    assert!((m6 - 15.0).abs() < 1.6 * Z * (10170.0 / n).sqrt(), "{what}: sixth moment {m6}");
    // tail probabilities P(|z| > t)
    for (t, p) in [
        (0.5, 0.6170750774519738),
        (1.0, 0.31731050786291415),
        (2.0, 0.04550026389635842),
        (3.0, 0.0026997960632601866),
        (4.0, 6.334248366623996e-5),
    ] {
        let count = z.iter().filter(|x| x.abs() > t).count() as f64;
        let sd = (n * p * (1.0 - p)).sqrt();
        assert!((count - n * p).abs() < Z * sd + 1.0, "{what}: tail beyond {t}: {count}");
    }
    // deciles (chi-square test with 9 degrees of freedom)
    let edges = [
        -1.2815515655446004,
        -0.8416212335729143,
        -0.5244005127080407,
        -0.2533471031357997,
        0.0,
        0.2533471031357997,
        0.5244005127080407,
        0.8416212335729143,
        1.2815515655446004,
    ];
    let mut bins = [0.0f64; 10];
    for x in &z {
        bins[edges.iter().filter(|&&e| *x > e).count()] += 1.0;
    }
    let chi2 = bins.iter().map(|c| (c - n / 10.0).powi(2) / (n / 10.0)).sum::<f64>();
    assert!(chi2 < 45.0, "{what}: chi-square of the deciles {chi2}");
    // independence between samples
    for lag in [1usize, 2, 3, 7, 64, 127, 128, 129, 255, 256, 257] {
        let r = correlation(&z[lag..], &z[..z.len() - lag]);
        assert!(r.abs() < Z / n.sqrt(), "{what}: autocorrelation at lag {lag}: {r}");
        let squares = z.iter().map(|x| x * x).collect::<Vec<_>>();
        let r = correlation(&squares[lag..], &squares[..z.len() - lag]);
        assert!(r.abs() < Z / n.sqrt(), "{what}: autocorrelation of squares at lag {lag}: {r}");
    }
}

#[test]
fn real_channel_noise_statistics() {
    with_timeout(900, || {
        let mut rng = SplitMix(1);
        for (sigma, frame) in [(1.0, 400_000usize), (0.37, 1), (2.5, 100), (1e-3, 129), (30.0, 4097)] {
            let channel = AwgnChannel::new(sigma);
            let total = 400_000 / frame * frame;
            let mut noise = Vec::with_capacity(total);
            let mut source = SplitMix(77);
            while noise.len() < total {
                // the symbols are +-1 in an arbitrary order
                let symbols = (0..frame)
                    .map(|_| if source.next() & 1 == 1 { 1.0 } else { -1.0 })
                    .collect::<Vec<f64>>();
                let mut received = symbols.clone();
                channel.clone().add_noise(&mut rng, &mut received);
                noise.extend(received.iter().zip(&symbols).map(|(y, x)| y - x));
            }
            check_gaussian_samples(&noise, sigma, &format!("real sigma={sigma} frame={frame}"));
        }
    });
}

#[test]
fn complex_channel_noise_statistics() {
    with_timeout(900, || {
        let mut rng = SplitMix(2);
        let a = 0.5f64.sqrt();
        let points = [
            Complex::new(a, a),
            Complex::new(1.0, 0.0),
            Complex::new(a, -a),
            Complex::new(0.0, -1.0),
            Complex::new(-a, -a),
            Complex::new(-1.0, 0.0),
            Complex::new(-a, a),
            Complex::new(0.0, 1.0),
        ];
        for (sigma, frame) in [(1.0, 300_000usize), (0.2, 1), (0.8, 5400), (5.0, 127), (0.05, 130)] {
            let channel = AwgnChannel::new(sigma);
            let total = 300_000 / frame * frame;
            let mut re = Vec::with_capacity(total);
            let mut im = Vec::with_capacity(total);
            let mut labels = Vec::with_capacity(total);
            let mut source = SplitMix(78);
            while re.len() < total {
                let tx = (0..frame).map(|_| source.below(8)).collect::<Vec<_>>();
                let symbols = tx.iter().map(|&l| points[l]).collect::<Vec<_>>();
                let mut received = symbols.clone();
                channel.add_noise(&mut rng, &mut received);
                for ((y, x), &l) in received.iter().zip(&symbols).zip(&tx) {
                    re.push(y.re - x.re);
                    im.push(y.im - x.im);
                    labels.push(l);
                }
            }
            let what = format!("complex sigma={sigma} frame={frame}");
            check_gaussian_samples(&re, sigma, &format!("{what} (real part)"));
            check_gaussian_samples(&im, sigma, &format!("{what} (imaginary part)"));
            // real and imaginary parts in the order in which they are in memory
            let interleaved = re.iter().zip(&im).flat_map(|(&a, &b)| [a, b]).collect::<Vec<_>>();
            check_gaussian_samples(&interleaved, sigma, &format!("{what} (interleaved)"));
            // independence between real and imaginary parts
            let n = re.len() as f64;
            let square = |v: &[f64]| v.iter().map(|x| x * x).collect::<Vec<_>>();
            for lag in [0usize, 1, 2, 127, 128, 129] {
                for (p, q) in [(&re, &im), (&im, &re)] {
                    let r = correlation(&p[lag..], q);
                    assert!(r.abs() < Z / n.sqrt(), "{what}: I/Q correlation {r} (lag {lag})");
                    let r = correlation(&square(&p[lag..]), &square(q));
                    assert!(r.abs() < Z / n.sqrt(), "{what}: I/Q correlation of squares {r}");
                    let r = correlation(&p[lag..], &square(q));
                    assert!(r.abs() < Z / n.sqrt(), "{what}: I/Q^2 correlation {r}");
                }
            }
            // the phase of the noise is uniform (circular symmetry): octants
            let mut octants = [0.0f64; 8];
            for (x, y) in re.iter().zip(&im) {
                let phase = y.atan2(*x) + std::f64::consts::PI;
                octants[((phase / (std::f64::consts::PI / 4.0)) as usize).min(7)] += 1.0;
            }
            let chi2 = octants.iter().map(|c| (c - n / 8.0).powi(2) / (n / 8.0)).sum::<f64>();
            assert!(chi2 < 42.0, "{what}: chi-square of the phase {chi2}");
            // the noise does not depend on the transmitted symbol
            if frame > 1 {
                for label in 0..8 {
                    let select = |v: &[f64]| {
                        v.iter()
                            .zip(&labels)
                            .filter(|(_, l)| **l == label)
                            .map(|(x, _)| *x / sigma)
                            .collect::<Vec<_>>()
                    };
                    for part in [select(&re), select(&im)] {
                        let m = part.len() as f64;
                        assert!(mean(&part).abs() < Z / m.sqrt());
                        let var = part.iter().map(|x| x * x).sum::<f64>() / m;
                        assert!((var - 1.0).abs() < Z * (2.0 / m).sqrt());
                    }
                }
            }
        }
    });
}

#[test]
fn channel_corner_cases() {
    let mut rng = SplitMix(3);
    // a noiseless channel does not change the symbols at all
    let channel = AwgnChannel::new(0.0);
    let mut real = (0..1000).map(|j| j as f64 - 500.0).collect::<Vec<_>>();
    let orig = real.clone();
    channel.add_noise(&mut rng, &mut real);
    assert_eq!(real, orig);
    let mut complex = (0..1000)
        .map(|j| Complex::new(j as f64, 1.0 - j as f64))
        .collect::<Vec<_>>();
    let orig = complex.clone();
    channel.add_noise(&mut rng, &mut complex);
    assert_eq!(complex, orig);
    // empty sequences of symbols
    for sigma in [0.0, 0.5] {
        let channel = AwgnChannel::new(sigma);
        let mut real: [f64; 0] = [];
        channel.add_noise(&mut rng, &mut real);
        let mut complex: [Complex<f64>; 0] = [];
        channel.add_noise(&mut rng, &mut complex);
    }
    // every symbol gets noise, whatever the length
    let channel = AwgnChannel::new(0.1);
    for len in [1usize, 2, 3, 127, 128, 129, 255, 256, 257, 1000] {
        let mut real = vec![1.0f64; len];
        channel.add_noise(&mut rng, &mut real);
        assert!(real.iter().all(|&x| x != 1.0 && (x - 1.0).abs() < 1.0));
        let mut complex = vec![Complex::new(1.0f64, -1.0); len];
        channel.add_noise(&mut rng, &mut complex);
        assert!(complex.iter().all(|x| x.re != 1.0
            && x.im != -1.0
            && (x.re - 1.0).abs() < 1.0
            && (x.im + 1.0).abs() < 1.0));
    }
    // invalid standard deviations
    for sigma in [-1.0, -1e-300, f64::NAN, f64::INFINITY, f64::NEG_INFINITY] {
        assert!(panics(|| AwgnChannel::new(sigma)), "sigma = {sigma} accepted");
    }
    assert!(!format!("{:?}", AwgnChannel::new(0.25)).is_empty());
}

// ------------------------------------------------------- complete BER chain

#[derive(Debug, Clone)]
struct Recorder {
    frames: Arc<Mutex<Vec<Vec<f64>>>>,
    limit: usize,
    // answer with the complement of the hard decision instead of the hard
    // decision
    complement: Arc<AtomicBool>,
}

impl Recorder {
    fn new(limit: usize, complement: bool) -> Recorder {
        Recorder {
            frames: Arc::new(Mutex::new(Vec::new())),
            limit,
            complement: Arc::new(AtomicBool::new(complement)),
        }
    }
}

impl Display for Recorder {
    fn fmt(&self, f: &mut std::fmt::Formatter<'_>) -> std::fmt::Result {
        write!(f, "Recorder")
    }
}

#[derive(Debug)]
struct RecordingDecoder {
    recorder: Recorder,
}

impl DecoderFactory for Recorder {
    fn build_decoder(&self, _h: SparseMatrix) -> Box<dyn LdpcDecoder> {
        Box::new(RecordingDecoder {
            recorder: self.clone(),
        })
    }
}

impl LdpcDecoder for RecordingDecoder {
    fn decode(&mut self, llrs: &[f64], _max: usize) -> Result<DecoderOutput, DecoderOutput> {
        {
            let mut frames = self.recorder.frames.lock().unwrap();
            if frames.len() < self.recorder.limit {
                frames.push(llrs.to_vec());
            }
        }
        let complement = self.recorder.complement.load(Ordering::Relaxed);
        // A negative LLR is a bit equal to one.
        Err(DecoderOutput {
            codeword: llrs.iter().map(|&x| u8::from((x < 0.0) != complement)).collect(),
            iterations: 1,
        })
    }
}

#[derive(Clone)]
struct Config {
    h: SparseMatrix,
    modulation: Modulation,
    pattern: Option<Vec<bool>>,
    interleaving: Option<isize>,
}

struct ChainOutput {
    frames: Vec<Vec<f64>>,
    n: usize,
    n_cw: usize,
    k: usize,
    rate: f64,
    num_frames: u64,
    bit_errors: u64,
}

fn run_chain(config: &Config, ebn0_db: f32, frame_errors: u64, record: usize, complement: bool) -> ChainOutput {
    let recorder = Recorder::new(record, complement);
    let test = BerTestBuilder {
        h: config.h.clone(),
        decoder_implementation: recorder.clone(),
        modulation: config.modulation,
        puncturing_pattern: config.pattern.as_deref(),
        interleaving_columns: config.interleaving,
        max_frame_errors: frame_errors,
        max_iterations: 1,
        ebn0s_db: &[ebn0_db],
        reporter: None,
        bch_max_errors: 0,
    }
    .build()
    .unwrap();
    let (n, n_cw, k, rate) = (test.n(), test.n_cw(), test.k(), test.rate());
    let stats = test.run().unwrap();
    assert_eq!(stats.len(), 1);
    assert_eq!(stats[0].ebn0_db, ebn0_db);
    assert!(stats[0].ldpc.frame_errors >= frame_errors);
    let frames = std::mem::take(&mut *recorder.frames.lock().unwrap());
    ChainOutput {
        frames,
        n,
        n_cw,
        k,
        rate,
        num_frames: stats[0].num_frames,
        bit_errors: stats[0].ldpc.bit_errors,
    }
}

fn syndrome_is_zero(h: &SparseMatrix, codeword: &[bool]) -> bool {
    (0..h.num_rows()).all(|r| h.iter_row(r).filter(|&&c| codeword[c]).count() % 2 == 0)
}

fn staircase_h(rng: &mut SplitMix, checks: usize, k: usize, row_weight: usize) -> SparseMatrix {
    let mut h = SparseMatrix::new(checks, k + checks);
    for j in 0..checks {
        h.insert(j, k + j);
        if j > 0 {
            h.insert(j, k + j - 1);
        }
        for _ in 0..row_weight {
            h.insert(j, rng.below(k));
        }
    }
    h
}

fn kept_positions(config: &Config) -> Vec<bool> {
    let n_cw = config.h.num_cols();
    (0..n_cw)
        .map(|j| match &config.pattern {
            Some(p) => p[j / (n_cw / p.len())],
            None => true,
        })
        .collect()
}

fn expected_sigma(config: &Config, ebn0_db: f32) -> f64 {
    let kept = kept_positions(config);
    let n = kept.iter().filter(|&&b| b).count();
    let k = config.h.num_cols() - config.h.num_rows();
    let bits_per_symbol = match config.modulation {
        Modulation::Bpsk => 1.0,
        Modulation::Psk8 => 3.0,
    };
    let esn0 = (k as f64 / n as f64) * bits_per_symbol * 10.0f64.powf(0.1 * f64::from(ebn0_db));
    (0.5 / esn0).sqrt()
}

fn check_reported_sizes(config: &Config, out: &ChainOutput) {
    let kept = kept_positions(config);
    let n = kept.iter().filter(|&&b| b).count();
    let n_cw = config.h.num_cols();
    let k = n_cw - config.h.num_rows();
    assert_eq!(out.n_cw, n_cw);
    assert_eq!(out.k, k);
    assert_eq!(out.n, n);
    assert!((out.rate - k as f64 / n as f64).abs() < 1e-12);
}

// Lengths, exact zeros and signs at a very high Eb/N0.
fn check_chain_noiseless(config: &Config) {
    let out = run_chain(config, 50.0, 12, 12, true);
    check_reported_sizes(config, &out);
    assert_eq!(out.frames.len(), 12);
    let h = &config.h;
    let n_cw = h.num_cols();
    let k = n_cw - h.num_rows();
    let kept = kept_positions(config);
    let encoder = Encoder::from_h(h).unwrap();
    let unknown_info = (0..k).filter(|&j| !kept[j]).collect::<Vec<_>>();
    assert!(unknown_info.len() <= 10);
    for llrs in &out.frames {
        assert_eq!(llrs.len(), n_cw);
        for (j, &llr) in llrs.iter().enumerate() {
            if kept[j] {
                assert!(llr.is_finite() && llr != 0.0);
            } else {
                assert!(llr == 0.0, "punctured position with non-zero LLR");
            }
        }
        let hard = llrs.iter().map(|&x| x < 0.0).collect::<Vec<_>>();
        let mut found = false;
        for guess in 0..(1u32 << unknown_info.len()) {
            let mut message = hard[..k].to_vec();
            for (t, &j) in unknown_info.iter().enumerate() {
                message[j] = guess >> t & 1 == 1;
            }
            let codeword = encoder
                .encode(&Array1::from_iter(message.iter().map(|&b| gf2(b))))
                .iter()
                .map(|x| x.is_one())
                .collect::<Vec<_>>();
            assert!(syndrome_is_zero(h, &codeword));
            if (0..n_cw).all(|j| !kept[j] || codeword[j] == hard[j]) {
                found = true;
                break;
            }
        }
        assert!(found, "the signs of the LLRs are not those of a codeword");
    }
}

// With BPSK, LLR = -2 (s + w) / sigma^2 with s = +-1, so the noise variance
// can be estimated from the moments of y = -LLR sigma^2 / 2 = s + w:
// E[y^2] = 1 + sigma^2, E[y^4] = 1 + 6 sigma^2 + 3 sigma^4.
fn check_chain_bpsk_noise(config: &Config, ebn0_db: f32, num_frames: usize) {
    assert!(config.modulation == Modulation::Bpsk);
    let out = run_chain(config, ebn0_db, num_frames as u64, num_frames, true);
    check_reported_sizes(config, &out);
    assert_eq!(out.frames.len(), num_frames);
    let sigma = expected_sigma(config, ebn0_db);
    let kept = kept_positions(config);
    let mut y = Vec::new();
    for llrs in &out.frames {
        assert_eq!(llrs.len(), kept.len());
        for (j, &llr) in llrs.iter().enumerate() {
            if kept[j] {
                y.push(-llr * sigma * sigma / 2.0);
            } else {
                assert!(llr == 0.0);
            }
        }
    }
    let n = y.len() as f64;
    let s2 = sigma * sigma;
    // these runs are not reproducible, so the tolerances are wider
    let z = 7.0;
    let m2 = y.iter().map(|v| v * v).sum::<f64>() / n;
    // Var(y^2) = 4 sigma^2 + 2 sigma^4
    let sd = ((4.0 * s2 + 2.0 * s2 * s2) / n).sqrt();
    assert!(
        (m2 - 1.0 - s2).abs() < z * sd,
        "noise variance {} instead of {s2} (Eb/N0 {ebn0_db} dB)",
        m2 - 1.0
    );
    if sigma < 0.15 {
        // The noise never changes the sign of a symbol, so |y| - 1 is the
        // noise (with the sign of the symbol). This gives a much more precise
        // estimate of the variance: Var(w^2) = 2 sigma^4.
        let v = y.iter().map(|v| (v.abs() - 1.0).powi(2)).sum::<f64>() / n;
        assert!(
            (v / s2 - 1.0).abs() < z * (2.0 / n).sqrt(),
            "noise variance {v} instead of {s2} (Eb/N0 {ebn0_db} dB)"
        );
    } else {
        // the test must be able to tell a wrong rate or a wrong number of bits
        // per symbol
        assert!(z * sd < 0.15 * s2);
    }
    let m4 = y.iter().map(|v| v.powi(4)).sum::<f64>() / n;
    let var4 = y.iter().map(|v| (v.powi(4) - m4).powi(2)).sum::<f64>() / n;
    assert!((m4 - (1.0 + 6.0 * s2 + 3.0 * s2 * s2)).abs() < z * (var4 / n).sqrt());
    // |y| - 1 is the noise (with the sign of the symbol) when the noise is
    // small: its mean must be zero
    if sigma < 0.15 {
        let m = y.iter().map(|v| v.abs() - 1.0).sum::<f64>() / n;
        assert!(m.abs() < z * sigma / n.sqrt(), "mean of the noise {m}");
    }
    // consecutive positions are independent
    let squares = y.iter().map(|v| v * v).collect::<Vec<_>>();
    let r = correlation(&squares[1..], &squares[..squares.len() - 1]);
    assert!(r.abs() < z / n.sqrt());
}

// DVB-S2 8PSK constellation: (b0, b1, b2) -> point
fn ref_psk8_point(b0: bool, b1: bool, b2: bool) -> Complex<f64> {
    let a = 0.5f64.sqrt();
    match (b0, b1, b2) {
        (false, false, false) => Complex::new(a, a),
        (false, false, true) => Complex::new(1.0, 0.0),
        (true, false, true) => Complex::new(a, -a),
        (true, true, true) => Complex::new(0.0, -1.0),
        (false, true, true) => Complex::new(-a, -a),
        (false, true, false) => Complex::new(-1.0, 0.0),
        (true, true, false) => Complex::new(-a, a),
        (true, false, false) => Complex::new(0.0, 1.0),
    }
}

// Hard decisions on the exact LLRs of the three bits of a symbol.
fn ref_psk8_hard(y: Complex<f64>, sigma: f64) -> [bool; 3] {
    let mut out = [false; 3];
    for (bit, decision) in out.iter_mut().enumerate() {
        let mut likelihood = [0.0f64; 2];
        for label in 0..8 {
            let b = [label & 4 != 0, label & 2 != 0, label & 1 != 0];
            let p = ref_psk8_point(b[0], b[1], b[2]);
            // the common factor exp(-(|y|^2 + 1) / (2 sigma^2)) is left out
            likelihood[usize::from(b[bit])] += ((y.re * p.re + y.im * p.im) / (sigma * sigma)).exp();
        }
        *decision = likelihood[1] > likelihood[0];
    }
    out
}

// With 8PSK and without interleaving, the k systematic bits are the first bits
// of the frame, so their raw error rate (hard decision on the LLRs) can be
// predicted from the error rates of the three bits of a symbol, which are
// obtained here by Monte Carlo simulation.
fn check_chain_psk8_noise(config: &Config, ebn0_db: f32, frame_errors: u64) {
    assert!(config.modulation == Modulation::Psk8 && config.interleaving.is_none());
    let kept = kept_positions(config);
    let k = config.h.num_cols() - config.h.num_rows();
    // only parity bits are punctured
    assert!(kept[..k].iter().all(|&b| b));
    let out = run_chain(config, ebn0_db, frame_errors, 4, false);
    check_reported_sizes(config, &out);
    for llrs in &out.frames {
        assert_eq!(llrs.len(), kept.len());
        for (j, &llr) in llrs.iter().enumerate() {
            assert!(kept[j] || llr == 0.0);
        }
    }
    let sigma = expected_sigma(config, ebn0_db);
    let mut rng = SplitMix(8);
    let trials = 300_000;
    let mut errors = [0.0f64; 3];
    for _ in 0..trials {
        let label = rng.below(8);
        let b = [label & 4 != 0, label & 2 != 0, label & 1 != 0];
        let y = ref_psk8_point(b[0], b[1], b[2])
            + Complex::new(sigma * rng.gaussian(), sigma * rng.gaussian());
        let hard = ref_psk8_hard(y, sigma);
        for t in 0..3 {
            if hard[t] != b[t] {
                errors[t] += 1.0;
            }
        }
    }
    let positions = [k.div_ceil(3), (k + 1) / 3, k / 3].map(|x| x as f64);
    let p = (0..3).map(|t| positions[t] * errors[t] / trials as f64).sum::<f64>() / k as f64;
    let bits = (out.num_frames * k as u64) as f64;
    let measured = out.bit_errors as f64 / bits;
    let sd = (p * (1.0 - p) / bits + p * (1.0 - p) / trials as f64).sqrt();
    assert!(
        (measured - p).abs() < 7.0 * sd,
        "raw bit error rate {measured} instead of {p} (Eb/N0 {ebn0_db} dB)"
    );
    // the test must be able to tell a wrong rate or a wrong number of bits per
    // symbol
    assert!(7.0 * sd < 0.15 * p);
}

#[test]
fn ber_chain_noiseless_frames() {
    with_timeout(900, || {
        let mut rng = SplitMix(10);
        let h = staircase_h(&mut rng, 70, 74, 4);
        let mut pattern24 = vec![true; 24];
        for j in [1, 14, 15, 20, 23] {
            pattern24[j] = false;
        }
        for pattern in [None, Some(vec![true, true, true, false]), Some(pattern24)] {
            let n = match &pattern {
                Some(p) => 144 / p.len() * p.iter().filter(|&&b| b).count(),
                None => 144,
            };
            for modulation in [Modulation::Bpsk, Modulation::Psk8] {
                for interleaving in [None, Some(3isize), Some(-3), Some(2)] {
                    if let Some(c) = interleaving {
                        if n % c.unsigned_abs() != 0 {
                            continue;
                        }
                    }
                    assert_eq!(n % 3, 0);
                    check_chain_noiseless(&Config {
                        h: h.clone(),
                        modulation,
                        pattern: pattern.clone(),
                        interleaving,
                    });
                }
            }
        }
    });
}

#[test]
fn ber_chain_bpsk_noise_variance() {
    with_timeout(1800, || {
        let mut rng = SplitMix(11);
        let h = staircase_h(&mut rng, 70, 74, 4);
        let mut pattern24 = vec![true; 24];
        for j in [1, 14, 15, 20, 23] {
            pattern24[j] = false;
        }
        for (pattern, interleaving, ebn0_db) in [
            (None, None, 3.0f32),
            (None, Some(-3isize), 0.0),
            (Some(vec![true, true, true, false]), None, 3.0),
            (Some(vec![true, true, false]), Some(4), 6.5),
            (Some(pattern24), Some(3), -2.0),
            (Some(vec![true, false]), None, 10.0),
            (None, None, 20.0),
        ] {
            check_chain_bpsk_noise(
                &Config {
                    h: h.clone(),
                    modulation: Modulation::Bpsk,
                    pattern,
                    interleaving,
                },
                ebn0_db,
                4000,
            );
        }
    });
}

#[test]
fn ber_chain_psk8_raw_error_rate() {
    with_timeout(1800, || {
        let mut rng = SplitMix(12);
        let h = staircase_h(&mut rng, 70, 74, 4);
        for (pattern, ebn0_db) in [
            (None, 3.0f32),
            (Some(vec![true, true, true, false]), 3.0),
            (Some(vec![true, true, true, true, true, false, false, false]), 1.0),
            (None, 6.0),
        ] {
            check_chain_psk8_noise(
                &Config {
                    h: h.clone(),
                    modulation: Modulation::Psk8,
                    pattern,
                    interleaving: None,
                },
                ebn0_db,
                6000,
            );
        }
    });
}
