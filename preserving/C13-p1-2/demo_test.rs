// Demo for property C13 (BER statistics are exact and the run terminates under
// every thread schedule). Public API only.
//
// A scripted decoder (plugged in through the public `DecoderFactory` trait)
// makes the outcome of every simulated frame a known function of a small set
// of "frame classes", and perturbs the arrival order of the worker results
// with pseudo-random delays. The number of workers is controlled through the
// CPU affinity of the thread that creates the BER test (Linux only; elsewhere
// the default number of workers is used).

use ldpc_toolbox::{
    decoder::{DecoderOutput, LdpcDecoder, factory::DecoderFactory},
    simulation::{
        ber::{Report, Reporter, Statistics},
        factory::{BerTestBuilder, Modulation},
    },
    sparse::SparseMatrix,
};
use std::{
    sync::{
        Arc, Mutex,
        atomic::{AtomicUsize, Ordering},
        mpsc,
    },
    time::Duration,
};

// ---------------------------------------------------------------------------
// CPU affinity (controls num_cpus::get(), and hence the number of workers)
// ---------------------------------------------------------------------------

#[cfg(target_os = "linux")]
mod affinity {
    unsafe extern "C" {
        fn sched_getaffinity(pid: i32, cpusetsize: usize, mask: *mut u64) -> i32;
        fn sched_setaffinity(pid: i32, cpusetsize: usize, mask: *const u64) -> i32;
    }

    const WORDS: usize = 16; // 1024 CPUs

    /// Restricts the calling thread to `n` of the CPUs it is allowed to use.
    /// Returns the number of CPUs the thread is allowed to use afterwards.
    pub fn restrict(n: usize) -> usize {
        let mut set = [0u64; WORDS];
        if unsafe { sched_getaffinity(0, WORDS * 8, set.as_mut_ptr()) } != 0 {
            return 0;
        }
        let allowed: Vec<usize> = (0..WORDS * 64)
            .filter(|&j| set[j / 64] & (1 << (j % 64)) != 0)
            .collect();
        if allowed.len() < n || n == 0 {
            return allowed.len();
        }
        let mut new = [0u64; WORDS];
        for &j in &allowed[..n] {
            new[j / 64] |= 1 << (j % 64);
        }
        if unsafe { sched_setaffinity(0, WORDS * 8, new.as_ptr()) } != 0 {
            return allowed.len();
        }
        n
    }
}

#[cfg(not(target_os = "linux"))]
mod affinity {
    pub fn restrict(_n: usize) -> usize {
        0
    }
}

// ---------------------------------------------------------------------------
// Scripted decoder
// ---------------------------------------------------------------------------

#[derive(Debug, Clone, Copy, PartialEq, Eq)]
struct Class {
    errors: usize,
    iterations: usize,
    success: bool,
}

// Frame classes. The numbers are chosen so that the per-class frame counts can
// be recovered from the aggregated statistics.
const A: Class = Class {
    errors: 0,
    iterations: 2,
    success: true,
};
const B: Class = Class {
    errors: 1,
    iterations: 5,
    success: true, // false decode
};
const C: Class = Class {
    errors: 7,
    iterations: 10,
    success: false,
};
const D: Class = Class {
    errors: 2,
    iterations: 50,
    success: false,
};
const E: Class = Class {
    errors: 0,
    iterations: 20,
    success: false, // not converged, but systematic bits are fine
};

#[derive(Debug, Clone, Copy, PartialEq, Eq)]
enum PanicMode {
    Never,
    // decoders whose index is odd panic at their n-th frame
    OddWorkersAtFrame(usize),
    // every decoder panics at its n-th frame
    AllWorkersAtFrame(usize),
    // only the decoder built first for each point panics at its n-th frame
    FirstWorkerAtFrame(usize),
}

#[derive(Debug, Default)]
struct Shared {
    built: AtomicUsize,
    dropped: AtomicUsize,
    decoded: AtomicUsize,
    workers_per_point: AtomicUsize,
    panicked: AtomicUsize,
}

#[derive(Debug, Clone)]
struct Scripted {
    k: usize,
    pattern: Arc<Vec<Class>>,
    max_delay_us: u64,
    seed: u64,
    panic_mode: PanicMode,
    shared: Arc<Shared>,
}

impl std::fmt::Display for Scripted {
    fn fmt(&self, f: &mut std::fmt::Formatter<'_>) -> std::fmt::Result {
        write!(f, "Scripted")
    }
}

impl DecoderFactory for Scripted {
    fn build_decoder(&self, _h: SparseMatrix) -> Box<dyn LdpcDecoder> {
        let index = self.shared.built.fetch_add(1, Ordering::SeqCst);
        Box::new(ScriptedDecoder {
            index,
            frame: 0,
            rng: self.seed ^ (index as u64 + 1).wrapping_mul(0x9E37_79B9_7F4A_7C15),
            cfg: self.clone(),
        })
    }
}

#[derive(Debug)]
struct ScriptedDecoder {
    index: usize,
    frame: usize,
    rng: u64,
    cfg: Scripted,
}

impl Drop for ScriptedDecoder {
    fn drop(&mut self) {
        self.cfg.shared.dropped.fetch_add(1, Ordering::SeqCst);
    }
}

impl ScriptedDecoder {
    fn next_random(&mut self) -> u64 {
        // xorshift64*
        self.rng ^= self.rng >> 12;
        self.rng ^= self.rng << 25;
        self.rng ^= self.rng >> 27;
        self.rng.wrapping_mul(0x2545_F491_4F6C_DD1D)
    }
}

impl LdpcDecoder for ScriptedDecoder {
    fn decode(
        &mut self,
        llrs: &[f64],
        _max_iterations: usize,
    ) -> Result<DecoderOutput, DecoderOutput> {
        let frame = self.frame;
        self.frame += 1;
        let workers = self.cfg.shared.workers_per_point.load(Ordering::SeqCst);
        let index_in_point = if workers > 0 {
            self.index % workers
        } else {
            self.index
        };
        let (panics_here, expected_panics, at_frame) = match self.cfg.panic_mode {
            PanicMode::Never => (false, 0, 0),
            PanicMode::OddWorkersAtFrame(n) => (index_in_point % 2 == 1, workers / 2, n),
            PanicMode::AllWorkersAtFrame(n) => (true, 0, n),
            PanicMode::FirstWorkerAtFrame(n) => (index_in_point == 0, 1, n),
        };
        if panics_here && frame == at_frame {
            self.cfg.shared.panicked.fetch_add(1, Ordering::SeqCst);
            panic!("scripted decoder panic (decoder {index_in_point}, frame {frame})");
        }
        if !panics_here && frame == at_frame + 2 {
            // Surviving decoders do not go on until the others have panicked,
            // so that the outcome does not depend on how fast the panicking
            // workers are scheduled.
            let start = std::time::Instant::now();
            while self.cfg.shared.panicked.load(Ordering::SeqCst) < expected_panics
                && start.elapsed() < Duration::from_secs(30)
            {
                std::thread::sleep(Duration::from_micros(100));
            }
        }
        if self.cfg.max_delay_us > 0 {
            let r = self.next_random();
            // one in four frames is not delayed at all
            if r % 4 != 0 {
                let us = (r >> 8) % (self.cfg.max_delay_us + 1);
                std::thread::sleep(Duration::from_micros(us));
            } else if r % 8 == 0 {
                std::thread::yield_now();
            }
        }
        self.cfg.shared.decoded.fetch_add(1, Ordering::SeqCst);
        // Each decoder runs through the pattern starting at an offset that
        // depends on its index within the point, so that a single worker
        // always sees the pattern from the beginning.
        let class = self.cfg.pattern[(frame + index_in_point) % self.cfg.pattern.len()];
        // The test is run at a very high Eb/N0, so the hard decision is the
        // transmitted codeword (at least in the systematic part, which is never
        // punctured in these tests).
        let mut codeword: Vec<u8> = llrs.iter().map(|&x| u8::from(x < 0.0)).collect();
        assert!(class.errors <= self.cfg.k);
        // flip `errors` distinct systematic bits, spread over the message
        for j in 0..class.errors {
            let pos = (j * self.cfg.k) / class.errors.max(1);
            codeword[pos] ^= 1;
        }
        let output = DecoderOutput {
            codeword,
            iterations: class.iterations,
        };
        if class.success {
            Ok(output)
        } else {
            Err(output)
        }
    }
}

// ---------------------------------------------------------------------------
// Code
// ---------------------------------------------------------------------------

// H = [A | I] with A a circulant of weight 2: n = 2k, always encodable.
fn small_h(k: usize) -> SparseMatrix {
    let mut h = SparseMatrix::new(k, 2 * k);
    for j in 0..k {
        h.insert(j, j);
        h.insert(j, (j + 1) % k);
        h.insert(j, k + j);
    }
    h
}

// ---------------------------------------------------------------------------
// Running a scenario
// ---------------------------------------------------------------------------

#[derive(Debug, Clone)]
struct Scenario {
    name: &'static str,
    k: usize,
    workers: usize, // 0: do not touch the affinity
    modulation: Modulation,
    puncturing: Option<Vec<bool>>,
    interleaving: Option<isize>,
    max_frame_errors: u64,
    bch_max_errors: u64,
    ebn0s: Vec<f32>,
    pattern: Vec<Class>,
    max_delay_us: u64,
    seed: u64,
    panic_mode: PanicMode,
    report_interval: Duration,
}

impl Default for Scenario {
    fn default() -> Scenario {
        Scenario {
            name: "",
            k: 12,
            workers: 0,
            modulation: Modulation::Bpsk,
            puncturing: None,
            interleaving: None,
            max_frame_errors: 10,
            bch_max_errors: 0,
            ebn0s: vec![60.0],
            pattern: vec![A, A, B, A, C, A, D, E],
            max_delay_us: 150,
            seed: 1,
            panic_mode: PanicMode::Never,
            report_interval: Duration::from_micros(200),
        }
    }
}

#[derive(Debug)]
struct Outcome {
    result: Result<Vec<Statistics>, String>,
    reports: Vec<Report>,
    report_channel_closed: bool,
    workers: usize,
    built: usize,
    dropped: usize,
    decoded: usize,
}

fn run_scenario(sc: &Scenario) -> Outcome {
    let sc = sc.clone();
    let name = sc.name;
    let (done_tx, done_rx) = mpsc::channel();
    // The test runs in its own thread: the affinity is a per-thread attribute
    // (inherited by the workers spawned from it), and this gives a watchdog
    // against hangs.
    std::thread::spawn(move || {
        let allowed = if sc.workers > 0 {
            affinity::restrict(sc.workers)
        } else {
            0
        };
        let shared = Arc::new(Shared::default());
        if allowed > 0 {
            shared.workers_per_point.store(allowed, Ordering::SeqCst);
        }
        let factory = Scripted {
            k: sc.k,
            pattern: Arc::new(sc.pattern.clone()),
            max_delay_us: sc.max_delay_us,
            seed: sc.seed,
            panic_mode: sc.panic_mode,
            shared: Arc::clone(&shared),
        };
        let (report_tx, report_rx) = mpsc::channel();
        let collected = Arc::new(Mutex::new(Vec::new()));
        let collector = {
            let collected = Arc::clone(&collected);
            std::thread::spawn(move || {
                // ends when every sender has been dropped
                for report in report_rx.iter() {
                    collected.lock().unwrap().push(report);
                }
            })
        };
        let test = BerTestBuilder {
            h: small_h(sc.k),
            decoder_implementation: factory,
            modulation: sc.modulation,
            puncturing_pattern: sc.puncturing.as_deref(),
            interleaving_columns: sc.interleaving,
            max_frame_errors: sc.max_frame_errors,
            max_iterations: 100,
            ebn0s_db: &sc.ebn0s,
            reporter: Some(Reporter {
                tx: report_tx,
                interval: sc.report_interval,
            }),
            bch_max_errors: sc.bch_max_errors,
        }
        .build()
        .expect("build BER test");
        assert_eq!(test.k(), sc.k);
        assert_eq!(test.n_cw(), 2 * sc.k);
        let result = test.run().map_err(|e| e.to_string());
        // All the senders are gone once run() has returned (the test has been
        // consumed), so the collector terminates.
        let (closed_tx, closed_rx) = mpsc::channel();
        std::thread::spawn(move || {
            let _ = collector.join();
            let _ = closed_tx.send(());
        });
        let report_channel_closed = closed_rx.recv_timeout(Duration::from_secs(20)).is_ok();
        let reports = collected.lock().unwrap().clone();
        let built = shared.built.load(Ordering::SeqCst);
        let outcome = Outcome {
            result,
            reports,
            report_channel_closed,
            workers: allowed,
            built,
            dropped: shared.dropped.load(Ordering::SeqCst),
            decoded: shared.decoded.load(Ordering::SeqCst),
        };
        let _ = done_tx.send(outcome);
    });
    match done_rx.recv_timeout(Duration::from_secs(120)) {
        Ok(outcome) => outcome,
        Err(_) => panic!("scenario {name}: BER test did not terminate (or its thread died)"),
    }
}

// ---------------------------------------------------------------------------
// Checks
// ---------------------------------------------------------------------------

fn same_f64(a: f64, b: f64) -> bool {
    a.to_bits() == b.to_bits() || (a.is_nan() && b.is_nan())
}

/// Checks that the statistics are exactly those of a set of whole frames drawn
/// from the classes A..E, and returns the number of frames of each class.
fn check_statistics(name: &str, s: &Statistics, k: usize, bch_max_errors: u64) -> [u64; 5] {
    let ctx = format!("{name}: {s:?}");
    let n = s.num_frames;
    let l = &s.ldpc;
    // frame classes
    let b = s.false_decodes;
    assert!(l.frame_errors >= b, "{ctx}");
    assert!(n >= l.frame_errors, "{ctx}");
    let cd = l.frame_errors - b; // c + d
    // bit errors: b + 7 c + 2 d
    assert!(l.bit_errors >= b + 2 * cd, "{ctx}");
    let rem = l.bit_errors - b - 2 * cd; // 5 c
    assert_eq!(rem % 5, 0, "{ctx}");
    let c = rem / 5;
    assert!(c <= cd, "{ctx}");
    let d = cd - c;
    let ae = n - l.frame_errors; // a + e
    // correct iterations: 2 a + 20 e
    assert!(l.correct_iterations >= 2 * ae, "{ctx}");
    let rem = l.correct_iterations - 2 * ae; // 18 e
    assert_eq!(rem % 18, 0, "{ctx}");
    let e = rem / 18;
    assert!(e <= ae, "{ctx}");
    let a = ae - e;
    assert_eq!(a + b + c + d + e, n, "{ctx}");
    assert_eq!(
        s.total_iterations,
        2 * a + 5 * b + 10 * c + 50 * d + 20 * e,
        "{ctx}"
    );
    assert_eq!(
        s.total_iterations,
        l.correct_iterations + 5 * b + 10 * c + 50 * d,
        "{ctx}"
    );
    // derived ratios
    let kf = k as f64;
    assert!(same_f64(l.ber, l.bit_errors as f64 / (kf * n as f64)), "{ctx}");
    assert!(same_f64(l.fer, l.frame_errors as f64 / n as f64), "{ctx}");
    assert!(
        same_f64(
            l.average_iterations_correct,
            l.correct_iterations as f64 / (n - l.frame_errors) as f64
        ),
        "{ctx}"
    );
    assert!(
        same_f64(s.average_iterations, s.total_iterations as f64 / n as f64),
        "{ctx}"
    );
    assert!(
        same_f64(
            s.throughput_mbps,
            1e-6 * (kf * n as f64) / s.elapsed.as_secs_f64()
        ),
        "{ctx}"
    );
    // outer code
    if bch_max_errors > 0 {
        let bch = s.bch.as_ref().unwrap_or_else(|| panic!("no bch: {ctx}"));
        let class_errors = [(b, 1u64), (c, 7), (d, 2)];
        let fe: u64 = class_errors
            .iter()
            .filter(|&&(_, e)| e > bch_max_errors)
            .map(|&(count, _)| count)
            .sum();
        let be: u64 = class_errors
            .iter()
            .filter(|&&(_, e)| e > bch_max_errors)
            .map(|&(count, e)| count * e)
            .sum();
        let corrected_iterations: u64 = [(b, 1u64, 5u64), (c, 7, 10), (d, 2, 50)]
            .iter()
            .filter(|&&(_, e, _)| e <= bch_max_errors)
            .map(|&(count, _, it)| count * it)
            .sum();
        assert_eq!(bch.frame_errors, fe, "{ctx}");
        assert_eq!(bch.bit_errors, be, "{ctx}");
        assert_eq!(
            bch.correct_iterations,
            l.correct_iterations + corrected_iterations,
            "{ctx}"
        );
        assert!(same_f64(bch.ber, bch.bit_errors as f64 / (kf * n as f64)), "{ctx}");
        assert!(same_f64(bch.fer, bch.frame_errors as f64 / n as f64), "{ctx}");
        assert!(
            same_f64(
                bch.average_iterations_correct,
                bch.correct_iterations as f64 / (n - bch.frame_errors) as f64
            ),
            "{ctx}"
        );
    } else {
        assert!(s.bch.is_none(), "{ctx}");
    }
    [a, b, c, d, e]
}

fn errors_for_termination(s: &Statistics) -> u64 {
    match &s.bch {
        Some(bch) => bch.frame_errors,
        None => s.ldpc.frame_errors,
    }
}

fn same_counts(a: &Statistics, b: &Statistics) -> bool {
    a.ebn0_db == b.ebn0_db
        && a.num_frames == b.num_frames
        && a.total_iterations == b.total_iterations
        && a.false_decodes == b.false_decodes
        && same_f64(a.average_iterations, b.average_iterations)
        && a.ldpc.bit_errors == b.ldpc.bit_errors
        && a.ldpc.frame_errors == b.ldpc.frame_errors
        && a.ldpc.correct_iterations == b.ldpc.correct_iterations
        && same_f64(a.ldpc.ber, b.ldpc.ber)
        && same_f64(a.ldpc.fer, b.ldpc.fer)
        && a.bch.as_ref().map(|x| (x.bit_errors, x.frame_errors, x.correct_iterations))
            == b.bch.as_ref().map(|x| (x.bit_errors, x.frame_errors, x.correct_iterations))
}

/// Checks on the stream of reports that hold for successful and failed runs.
/// Returns the last statistics report of each Eb/N0 (in order).
fn check_reports(sc: &Scenario, out: &Outcome) -> Vec<Statistics> {
    let name = sc.name;
    assert!(out.report_channel_closed, "{name}: reporter not released");
    assert!(!out.reports.is_empty(), "{name}: no reports");
    assert_eq!(
        out.reports.last(),
        Some(&Report::Finished),
        "{name}: last report is not Finished"
    );
    let finished = out
        .reports
        .iter()
        .filter(|r| matches!(r, Report::Finished))
        .count();
    assert_eq!(finished, 1, "{name}: more than one Finished");
    let mut last: Vec<Statistics> = Vec::new();
    for report in &out.reports {
        let Report::Statistics(s) = report else {
            continue;
        };
        check_statistics(name, s, sc.k, sc.bch_max_errors);
        // never beyond the target
        assert!(
            errors_for_termination(s) <= sc.max_frame_errors,
            "{name}: {s:?}"
        );
        match last.last_mut() {
            Some(prev) if prev.ebn0_db == s.ebn0_db => {
                // monotone within a point
                assert!(s.num_frames >= prev.num_frames, "{name}");
                assert!(s.total_iterations >= prev.total_iterations, "{name}");
                assert!(s.ldpc.bit_errors >= prev.ldpc.bit_errors, "{name}");
                assert!(s.ldpc.frame_errors >= prev.ldpc.frame_errors, "{name}");
                assert!(s.false_decodes >= prev.false_decodes, "{name}");
                *prev = s.clone();
            }
            _ => last.push(s.clone()),
        }
    }
    // the points are reported in order, without repetition
    let reported: Vec<f32> = last.iter().map(|s| s.ebn0_db).collect();
    assert!(reported.len() <= sc.ebn0s.len(), "{name}");
    assert_eq!(&reported[..], &sc.ebn0s[..reported.len()], "{name}");
    // all the workers have been joined: every decoder has been dropped
    assert_eq!(out.built, out.dropped, "{name}: workers not joined");
    if out.workers > 0 {
        assert_eq!(out.built % out.workers, 0, "{name}");
        assert_eq!(out.built, out.workers * reported.len(), "{name}");
    }
    last
}

fn check_success(sc: &Scenario, out: &Outcome) -> Vec<[u64; 5]> {
    let name = sc.name;
    let last = check_reports(sc, out);
    let stats = match &out.result {
        Ok(stats) => stats,
        Err(e) => panic!("{name}: unexpected error {e}"),
    };
    assert_eq!(stats.len(), sc.ebn0s.len(), "{name}");
    assert_eq!(last.len(), sc.ebn0s.len(), "{name}");
    let mut classes = Vec::new();
    for ((s, &ebn0), last_report) in stats.iter().zip(&sc.ebn0s).zip(&last) {
        assert_eq!(s.ebn0_db, ebn0, "{name}");
        classes.push(check_statistics(name, s, sc.k, sc.bch_max_errors));
        // the point stops exactly when the target is reached
        assert_eq!(
            errors_for_termination(s),
            sc.max_frame_errors,
            "{name}: {s:?}"
        );
        // the last report of the point carries the final statistics
        assert!(
            same_counts(s, last_report),
            "{name}: {s:?} vs {last_report:?}"
        );
    }
    assert!(out.decoded as u64 >= stats.iter().map(|s| s.num_frames).sum::<u64>());
    classes
}

fn check_failure(sc: &Scenario, out: &Outcome, message: &str) {
    let name = sc.name;
    check_reports(sc, out);
    match &out.result {
        Ok(stats) => panic!("{name}: expected an error, got {stats:?}"),
        Err(e) => assert_eq!(e, message, "{name}"),
    }
}

/// Expected class counts for a single worker that sees the pattern from the
/// beginning and stops exactly at the target.
fn expected_single_worker(sc: &Scenario) -> [u64; 5] {
    let mut counts = [0u64; 5];
    let mut errors = 0;
    let mut j = 0;
    while errors < sc.max_frame_errors {
        let class = sc.pattern[j % sc.pattern.len()];
        j += 1;
        let index = [A, B, C, D, E].iter().position(|&c| c == class).unwrap();
        counts[index] += 1;
        let is_error = if sc.bch_max_errors > 0 {
            class.errors as u64 > sc.bch_max_errors
        } else {
            class.errors > 0
        };
        errors += u64::from(is_error);
    }
    counts
}

const WORKER_COUNTS: [usize; 7] = [1, 2, 3, 4, 7, 11, 16];

// ---------------------------------------------------------------------------
// Tests
// ---------------------------------------------------------------------------

#[test]
fn exact_statistics_for_all_worker_counts() {
    for &workers in &WORKER_COUNTS {
        for bch_max_errors in [0, 1, 3] {
            for (seed, max_delay_us) in [(1, 0), (2, 60), (3, 400)] {
                let sc = Scenario {
                    name: "exact",
                    workers,
                    bch_max_errors,
                    max_frame_errors: 9,
                    ebn0s: vec![60.0, 61.5],
                    seed: seed + 100 * workers as u64,
                    max_delay_us,
                    ..Default::default()
                };
                let out = run_scenario(&sc);
                let classes = check_success(&sc, &out);
                if out.workers == 1 {
                    for c in classes {
                        assert_eq!(c, expected_single_worker(&sc), "{sc:?}");
                    }
                }
            }
        }
    }
}

#[test]
fn single_worker_is_a_prefix_of_the_script() {
    let patterns: Vec<Vec<Class>> = vec![
        vec![C],
        vec![A, B],
        vec![E, E, E, D],
        vec![A, A, A, A, A, A, A, A, A, A, A, A, A, A, A, B, C, D],
        vec![B, C, D, B, C, D, A],
    ];
    for pattern in patterns {
        for bch_max_errors in [0, 1, 2, 6] {
            for max_frame_errors in [1, 2, 5] {
                let sc = Scenario {
                    name: "single worker",
                    workers: 1,
                    bch_max_errors,
                    max_frame_errors,
                    pattern: pattern.clone(),
                    ebn0s: vec![55.0, 56.0, 57.0],
                    max_delay_us: 20,
                    ..Default::default()
                };
                // the target must be reachable with this pattern
                let reachable = pattern.iter().any(|c| {
                    if bch_max_errors > 0 {
                        c.errors as u64 > bch_max_errors
                    } else {
                        c.errors > 0
                    }
                });
                if !reachable {
                    continue;
                }
                let out = run_scenario(&sc);
                let classes = check_success(&sc, &out);
                if out.workers == 1 {
                    for c in classes {
                        assert_eq!(c, expected_single_worker(&sc), "{sc:?}");
                    }
                }
            }
        }
    }
}

#[test]
fn every_frame_is_an_error() {
    // every result received counts towards the target: the number of frames
    // is exactly the target, whatever the number of workers
    for &workers in &WORKER_COUNTS {
        for max_frame_errors in [1, 2, 17, 100] {
            let sc = Scenario {
                name: "all errors",
                workers,
                max_frame_errors,
                pattern: vec![C, D, B],
                max_delay_us: 30,
                seed: 7 + workers as u64,
                ..Default::default()
            };
            let out = run_scenario(&sc);
            check_success(&sc, &out);
            let stats = out.result.as_ref().unwrap();
            assert_eq!(stats[0].num_frames, max_frame_errors);
            assert_eq!(stats[0].ldpc.fer, 1.0);
            assert!(stats[0].ldpc.average_iterations_correct.is_nan());
        }
    }
}

#[test]
fn zero_frame_errors_requested() {
    // the target is met before any frame is received: empty statistics
    for &workers in &[1, 4, 16] {
        for bch_max_errors in [0, 2] {
            let sc = Scenario {
                name: "zero target",
                workers,
                bch_max_errors,
                max_frame_errors: 0,
                ebn0s: vec![60.0, 61.0],
                ..Default::default()
            };
            let out = run_scenario(&sc);
            check_success(&sc, &out);
            for s in out.result.as_ref().unwrap() {
                assert_eq!(s.num_frames, 0);
                assert_eq!(s.total_iterations, 0);
                assert!(s.ldpc.ber.is_nan());
                assert!(s.ldpc.fer.is_nan());
                assert!(s.average_iterations.is_nan());
            }
        }
    }
}

#[cfg(target_os = "linux")]
#[test]
fn affinity_sets_the_number_of_workers() {
    // sanity check of the harness itself
    let available = std::thread::spawn(|| affinity::restrict(0)).join().unwrap();
    for &workers in &WORKER_COUNTS {
        if workers > available {
            continue;
        }
        let sc = Scenario {
            name: "affinity",
            workers,
            max_frame_errors: 3,
            ebn0s: vec![60.0, 61.0, 62.0],
            ..Default::default()
        };
        let out = run_scenario(&sc);
        check_success(&sc, &out);
        assert_eq!(out.workers, workers);
        assert_eq!(out.built, 3 * workers);
    }
}

#[test]
fn no_ebn0_points() {
    let sc = Scenario {
        name: "no points",
        workers: 2,
        ebn0s: vec![],
        ..Default::default()
    };
    let out = run_scenario(&sc);
    assert_eq!(out.reports, vec![Report::Finished]);
    assert_eq!(out.result.as_ref().unwrap().len(), 0);
    assert_eq!(out.built, 0);
}

#[test]
fn valid_puncturing_interleaving_and_modulation() {
    // k = 12, n_cw = 24. Only parity bits are punctured.
    let cases: Vec<(Modulation, Option<Vec<bool>>, Option<isize>)> = vec![
        (Modulation::Bpsk, Some(vec![true, true, true, false]), None),
        (Modulation::Bpsk, Some(vec![true, true, false]), Some(4)),
        (Modulation::Bpsk, None, Some(3)),
        (Modulation::Bpsk, None, Some(-3)),
        (Modulation::Bpsk, None, Some(24)),
        (Modulation::Psk8, None, None),
        (Modulation::Psk8, None, Some(3)),
        (Modulation::Psk8, None, Some(-3)),
        (Modulation::Psk8, Some(vec![true, true, true, false]), Some(3)),
    ];
    for (j, (modulation, puncturing, interleaving)) in cases.into_iter().enumerate() {
        for &workers in &[1, 5] {
            let sc = Scenario {
                name: "valid stages",
                workers,
                modulation,
                puncturing: puncturing.clone(),
                interleaving,
                max_frame_errors: 6,
                bch_max_errors: (j % 2) as u64,
                ebn0s: vec![60.0, 70.0],
                seed: j as u64,
                max_delay_us: 50,
                ..Default::default()
            };
            let out = run_scenario(&sc);
            let classes = check_success(&sc, &out);
            if out.workers == 1 {
                for c in classes {
                    assert_eq!(c, expected_single_worker(&sc), "{sc:?}");
                }
            }
        }
    }
}

#[test]
fn stage_returns_an_error() {
    // puncturing pattern lengths that do not divide n_cw = 24
    for pattern in [
        vec![true, true, true, true, false],
        vec![true, false, true, true, true, false, true],
        vec![true; 5],
        vec![true; 25],
    ] {
        for &workers in &[1, 2, 8, 16] {
            for bch_max_errors in [0, 2] {
                let sc = Scenario {
                    name: "puncturing error",
                    workers,
                    puncturing: Some(pattern.clone()),
                    bch_max_errors,
                    ebn0s: vec![60.0, 61.0],
                    ..Default::default()
                };
                let out = run_scenario(&sc);
                check_failure(
                    &sc,
                    &out,
                    "codeword size not divisible by puncturing pattern length",
                );
                // no frame gets as far as the decoder, and the run stops at
                // the first point
                assert_eq!(out.decoded, 0);
                for report in &out.reports {
                    if let Report::Statistics(s) = report {
                        assert_eq!(s.num_frames, 0);
                        assert_eq!(s.ebn0_db, 60.0);
                    }
                }
            }
        }
    }
}

#[test]
fn stage_panics_in_every_worker() {
    let cases: Vec<(Modulation, usize, Option<Vec<bool>>, Option<isize>)> = vec![
        // interleaver columns do not divide the frame size
        (Modulation::Bpsk, 12, None, Some(5)),
        (Modulation::Bpsk, 12, None, Some(-7)),
        (Modulation::Bpsk, 12, None, Some(48)),
        (Modulation::Bpsk, 12, Some(vec![true, true, true, false]), Some(4)),
        // 8PSK needs a multiple of 3 bits: n = 20 and n = 16 (punctured) do not fit
        (Modulation::Psk8, 10, None, None),
        (Modulation::Psk8, 10, None, Some(2)),
        (Modulation::Psk8, 12, Some(vec![true, true, false]), None),
    ];
    for (modulation, k, puncturing, interleaving) in cases {
        for &workers in &[1, 3, 16] {
            let sc = Scenario {
                name: "stage panic",
                k,
                workers,
                modulation,
                puncturing: puncturing.clone(),
                interleaving,
                ebn0s: vec![60.0, 61.0],
                pattern: vec![A, B, C],
                ..Default::default()
            };
            let out = run_scenario(&sc);
            check_failure(&sc, &out, "BER test worker thread panicked");
            assert_eq!(out.decoded, 0);
        }
    }
}

#[test]
fn decoder_panics_in_some_workers() {
    for &workers in &[2, 3, 8, 16] {
        for at_frame in [0, 1, 4] {
            for mode in [
                PanicMode::OddWorkersAtFrame(at_frame),
                PanicMode::FirstWorkerAtFrame(at_frame),
            ] {
                for bch_max_errors in [0, 1] {
                    let sc = Scenario {
                        name: "some decoders panic",
                        workers,
                        panic_mode: mode,
                        bch_max_errors,
                        // large enough that the panicking workers get to their
                        // panic before the target is met by the others
                        max_frame_errors: 200,
                        max_delay_us: 40,
                        ebn0s: vec![60.0, 61.0],
                        seed: at_frame as u64,
                        ..Default::default()
                    };
                    let out = run_scenario(&sc);
                    if out.workers == 0 {
                        // affinity not available: the mapping from decoders to
                        // workers is not known, only check the report stream
                        check_reports(&sc, &out);
                        continue;
                    }
                    check_failure(&sc, &out, "BER test worker thread panicked");
                    // the surviving workers completed the first point
                    let last = check_reports(&sc, &out);
                    assert_eq!(last.len(), 1);
                    assert_eq!(errors_for_termination(&last[0]), 200);
                }
            }
        }
    }
}

#[test]
fn decoder_panics_in_every_worker() {
    for &workers in &[1, 2, 9, 16] {
        for at_frame in [0, 3] {
            let sc = Scenario {
                name: "all decoders panic",
                workers,
                panic_mode: PanicMode::AllWorkersAtFrame(at_frame),
                // cannot be reached with at most 16 * 3 frames
                max_frame_errors: 1000,
                ebn0s: vec![60.0, 61.0],
                max_delay_us: 40,
                ..Default::default()
            };
            let out = run_scenario(&sc);
            check_failure(&sc, &out, "BER test worker thread panicked");
            let last = check_reports(&sc, &out);
            assert_eq!(last.len(), 1);
            if out.workers > 0 {
                // every frame decoded before the panics has been sent and
                // received, since the consumer never reached its target
                assert_eq!(last[0].num_frames, (out.workers * at_frame) as u64);
            }
        }
    }
}

#[test]
fn slow_consumer_and_long_reporting_interval() {
    // With a long interval only the final report of each point is sent.
    for &workers in &[1, 6, 16] {
        let sc = Scenario {
            name: "long interval",
            workers,
            report_interval: Duration::from_secs(3600),
            max_frame_errors: 40,
            bch_max_errors: 1,
            ebn0s: vec![60.0, 61.0, 62.0],
            max_delay_us: 0,
            ..Default::default()
        };
        let out = run_scenario(&sc);
        check_success(&sc, &out);
        assert_eq!(out.reports.len(), 4, "{:?}", out.reports);
    }
}

// ---------------------------------------------------------------------------
// Command-line tool
// ---------------------------------------------------------------------------

fn run_cli(args: &[&str]) -> std::process::Output {
    let mut child = std::process::Command::new(env!("CARGO_BIN_EXE_ldpc-toolbox"))
        .args(args)
        .stdin(std::process::Stdio::null())
        .stdout(std::process::Stdio::piped())
        .stderr(std::process::Stdio::piped())
        .spawn()
        .expect("spawn ldpc-toolbox");
    // watchdog against hangs
    let start = std::time::Instant::now();
    loop {
        match child.try_wait().expect("try_wait") {
            Some(_) => break,
            None if start.elapsed() > Duration::from_secs(120) => {
                let _ = child.kill();
                panic!("ldpc-toolbox {args:?} did not terminate");
            }
            None => std::thread::sleep(Duration::from_millis(10)),
        }
    }
    child.wait_with_output().expect("wait_with_output")
}

fn temp_dir(tag: &str) -> std::path::PathBuf {
    let dir = std::env::temp_dir().join(format!(
        "ldpc-toolbox-c13-demo-{}-{}",
        std::process::id(),
        tag
    ));
    std::fs::create_dir_all(&dir).unwrap();
    dir
}

const HEADER: &str = "  Eb/N0 |   Frames | Bit errs | Frame er | False de |     BER |     FER | Avg iter | Avg corr | Throughp | Elapsed\n\
--------|----------|----------|----------|----------|---------|---------|----------|----------|----------|----------\n";

/// Parses and checks the table rows of an output file; returns
/// (ebn0, frames, bit errors, frame errors) for each row.
fn check_table(text: &str, preamble: &str, k: usize) -> Vec<(String, u64, u64, u64)> {
    let rest = text
        .strip_prefix(preamble)
        .unwrap_or_else(|| panic!("unexpected preamble:\n{text}\nexpected:\n{preamble}"));
    let rest = rest
        .strip_prefix(HEADER)
        .unwrap_or_else(|| panic!("unexpected header:\n{rest}"));
    assert!(rest.ends_with('\n') || rest.is_empty());
    let mut rows = Vec::new();
    for line in rest.lines() {
        let cols: Vec<&str> = line.split(" | ").collect();
        assert_eq!(cols.len(), 11, "{line}");
        for (col, width) in cols.iter().zip([7, 8, 8, 8, 8, 7, 7, 8, 8, 8]) {
            assert!(col.len() >= width, "{line}");
        }
        let frames: u64 = cols[1].trim().parse().unwrap();
        let bit_errors: u64 = cols[2].trim().parse().unwrap();
        let frame_errors: u64 = cols[3].trim().parse().unwrap();
        let false_decodes: u64 = cols[4].trim().parse().unwrap();
        assert!(frame_errors <= frames, "{line}");
        assert!(false_decodes <= frames, "{line}");
        assert!(bit_errors >= frame_errors, "{line}");
        assert!(bit_errors <= frame_errors * k as u64, "{line}");
        let ber = bit_errors as f64 / (k as f64 * frames as f64);
        let fer = frame_errors as f64 / frames as f64;
        assert_eq!(cols[5], format!("{ber:7.2e}"), "{line}");
        assert_eq!(cols[6], format!("{fer:7.2e}"), "{line}");
        rows.push((cols[0].to_string(), frames, bit_errors, frame_errors));
    }
    rows
}

#[test]
fn cli_tables_are_consistent() {
    let dir = temp_dir("ok");
    let alist = dir.join("code.alist");
    std::fs::write(&alist, small_h(12).alist()).unwrap();
    let alist = alist.to_str().unwrap();
    let out_file = dir.join("out.txt");
    let out_ldpc = dir.join("out_ldpc.txt");

    // plain LDPC
    let output = run_cli(&[
        "ber",
        "--min-ebn0=-1.0",
        "--max-ebn0",
        "1.2",
        "--step-ebn0",
        "1",
        "--frame-errors",
        "7",
        "--max-iter",
        "5",
        "--output-file",
        out_file.to_str().unwrap(),
        alist,
    ]);
    assert!(output.status.success(), "{output:?}");
    let preamble = format!(
        "BER TEST PARAMETERS\n\
         -------------------\n\
         Simulation:\n \
         - Minimum Eb/N0: -1.00 dB\n \
         - Maximum Eb/N0: 1.20 dB\n \
         - Eb/N0 step: 1.00 dB\n \
         - Number of frame errors: 7\n\
         Channel:\n \
         - Modulation: BPSK\n\
         LDPC code:\n \
         - alist: {alist}\n \
         - Information bits (k): 12\n \
         - Codeword size (N_cw): 24\n \
         - Frame size (N): 24\n \
         - Code rate: 0.500\n\
         LDPC decoder:\n \
         - Implementation: Phif64\n \
         - Maximum iterations: 5\n\n"
    );
    let text = std::fs::read_to_string(&out_file).unwrap();
    let rows = check_table(&text, &preamble, 12);
    assert_eq!(rows.len(), 3, "{text}");
    for (row, ebn0) in rows.iter().zip(["  -1.00", "   0.00", "   1.00"]) {
        assert_eq!(row.0, ebn0);
        assert_eq!(row.3, 7, "{text}");
    }
    let stdout = String::from_utf8_lossy(&output.stdout);
    assert!(stdout.starts_with(&preamble), "{stdout}");

    // with the outer code, puncturing and interleaving, two output files
    let output = run_cli(&[
        "ber",
        "--min-ebn0",
        "0",
        "--max-ebn0",
        "0.5",
        "--step-ebn0",
        "1",
        "--frame-errors",
        "4",
        "--max-iter",
        "3",
        "--bch-max-errors",
        "1",
        "--puncturing",
        "1,1,1,0",
        "--interleaving=-3",
        "--modulation",
        "PSK8",
        "--decoder",
        "Minstarapproxi8",
        "--output-file",
        out_file.to_str().unwrap(),
        "--output-file-ldpc",
        out_ldpc.to_str().unwrap(),
        alist,
    ]);
    assert!(output.status.success(), "{output:?}");
    let preamble = format!(
        "BER TEST PARAMETERS\n\
         -------------------\n\
         Simulation:\n \
         - Minimum Eb/N0: 0.00 dB\n \
         - Maximum Eb/N0: 0.50 dB\n \
         - Eb/N0 step: 1.00 dB\n \
         - Number of frame errors: 4\n\
         Channel:\n \
         - Modulation: 8PSK\n\
         LDPC code:\n \
         - alist: {alist}\n \
         - Puncturing pattern: 1,1,1,0\n \
         - Interleaving columns: -3\n \
         - Information bits (k): 12\n \
         - Codeword size (N_cw): 24\n \
         - Frame size (N): 18\n \
         - Code rate: 0.667\n\
         LDPC decoder:\n \
         - Implementation: Minstarapproxi8\n \
         - Maximum iterations: 3\n\
         BCH decoder:\n \
         - Maximum bit errors correctable: 1\n\n"
    );
    let text = std::fs::read_to_string(&out_file).unwrap();
    let rows = check_table(&text, &format!("{preamble}\nLDPC+BCH results\n\n"), 12);
    let text_ldpc = std::fs::read_to_string(&out_ldpc).unwrap();
    let rows_ldpc = check_table(&text_ldpc, &format!("{preamble}\nLDPC-only results\n\n"), 12);
    assert_eq!(rows.len(), 1, "{text}");
    assert_eq!(rows_ldpc.len(), 1, "{text_ldpc}");
    // the run stops on the outer-code errors, which are a subset of the LDPC ones
    assert_eq!(rows[0].3, 4, "{text}");
    assert_eq!(rows[0].1, rows_ldpc[0].1);
    assert!(rows_ldpc[0].3 >= rows[0].3);
    assert!(rows_ldpc[0].2 >= rows[0].2);
    // every frame in error for the outer code has at least 2 bit errors, the
    // others that are in error for LDPC have exactly one
    assert!(rows[0].2 >= 2 * rows[0].3);
    assert_eq!(rows_ldpc[0].2 - rows[0].2, rows_ldpc[0].3 - rows[0].3);
    let _ = std::fs::remove_dir_all(&dir);
}

#[test]
fn cli_fails_instead_of_hanging() {
    let dir = temp_dir("fail");
    let alist = dir.join("code.alist");
    std::fs::write(&alist, small_h(12).alist()).unwrap();
    let alist = alist.to_str().unwrap();
    let common = [
        "ber",
        "--min-ebn0",
        "0",
        "--max-ebn0",
        "1",
        "--step-ebn0",
        "1",
        "--frame-errors",
        "5",
    ];
    let cases: Vec<(Vec<&str>, &str)> = vec![
        (
            vec!["--puncturing", "1,1,1,1,0"],
            "codeword size not divisible by puncturing pattern length",
        ),
        (
            vec!["--puncturing", "1,1,1,1,0", "--bch-max-errors", "2"],
            "codeword size not divisible by puncturing pattern length",
        ),
        (vec!["--interleaving", "5"], "BER test worker thread panicked"),
        (
            vec!["--modulation", "PSK8", "--puncturing", "1,1,0"],
            "BER test worker thread panicked",
        ),
    ];
    for (extra, message) in cases {
        let out_file = dir.join("out.txt");
        let mut args: Vec<&str> = common.to_vec();
        args.extend(&extra);
        args.push("--output-file");
        args.push(out_file.to_str().unwrap());
        args.push(alist);
        let output = run_cli(&args);
        assert!(!output.status.success(), "{args:?}: {output:?}");
        let stderr = String::from_utf8_lossy(&output.stderr);
        assert!(stderr.contains(message), "{args:?}: {stderr}");
    }
    let _ = std::fs::remove_dir_all(&dir);
}

// ---------------------------------------------------------------------------
// Emphasis of this demo: classification of the frames (frame error, false
// decode, corrected by the outer code) and the accumulated counts and ratios
// ---------------------------------------------------------------------------

#[test]
fn outer_code_threshold_boundaries() {
    // The classes have 0, 1, 2 and 7 bit errors: thresholds equal to, just
    // below and just above these values (a frame is corrected by the outer
    // code if and only if bit errors <= threshold).
    let patterns: Vec<Vec<Class>> = vec![
        vec![B, D, C, A, E],
        vec![D, D, B, B, C],
        vec![E, B, E, D, E, C],
        vec![C, C, C, D],
    ];
    for (j, pattern) in patterns.into_iter().enumerate() {
        for bch_max_errors in [0, 1, 2, 3, 6] {
            for &workers in &[1, 2, 5, 16] {
                let sc = Scenario {
                    name: "thresholds",
                    workers,
                    bch_max_errors,
                    max_frame_errors: 25,
                    pattern: pattern.clone(),
                    max_delay_us: 25,
                    seed: 1000 + j as u64,
                    ebn0s: vec![58.0],
                    ..Default::default()
                };
                let out = run_scenario(&sc);
                let classes = check_success(&sc, &out);
                let s = &out.result.as_ref().unwrap()[0];
                let [a, b, c, d, e] = classes[0];
                // explicit expectations per class, for LDPC alone...
                assert_eq!(s.ldpc.frame_errors, b + c + d);
                assert_eq!(s.ldpc.bit_errors, b + 7 * c + 2 * d);
                assert_eq!(s.ldpc.correct_iterations, 2 * a + 20 * e);
                assert_eq!(s.false_decodes, b);
                // ...and for the outer code
                match (bch_max_errors, &s.bch) {
                    (0, None) => (),
                    (1, Some(bch)) => {
                        assert_eq!(bch.frame_errors, c + d);
                        assert_eq!(bch.bit_errors, 7 * c + 2 * d);
                        assert_eq!(bch.correct_iterations, 2 * a + 20 * e + 5 * b);
                    }
                    (2..=6, Some(bch)) => {
                        assert_eq!(bch.frame_errors, c);
                        assert_eq!(bch.bit_errors, 7 * c);
                        assert_eq!(bch.correct_iterations, 2 * a + 20 * e + 5 * b + 50 * d);
                    }
                    other => panic!("{other:?}"),
                }
                if out.workers == 1 {
                    assert_eq!(classes[0], expected_single_worker(&sc), "{sc:?}");
                }
            }
        }
    }
}

#[test]
fn large_counts_without_delays() {
    // many frames per point, as fast as the workers can produce them
    for &workers in &[1, 3, 16] {
        for bch_max_errors in [0, 2] {
            let sc = Scenario {
                name: "large counts",
                workers,
                bch_max_errors,
                max_frame_errors: 1500,
                pattern: vec![A, A, A, A, A, A, A, B, A, A, E, A, C, A, A, D],
                max_delay_us: 0,
                ebn0s: vec![60.0, 61.0],
                report_interval: Duration::from_micros(50),
                ..Default::default()
            };
            let out = run_scenario(&sc);
            let classes = check_success(&sc, &out);
            if out.workers == 1 {
                for c in classes {
                    assert_eq!(c, expected_single_worker(&sc), "{sc:?}");
                }
            }
        }
    }
}

#[test]
fn ratios_are_the_stated_quotients() {
    // one worker, so that the counts are known in advance, and the ratios can
    // be compared with literal expectations
    let sc = Scenario {
        name: "ratios",
        workers: 1,
        bch_max_errors: 1,
        max_frame_errors: 2,
        pattern: vec![A, B, E, D, A, C, A],
        max_delay_us: 0,
        ebn0s: vec![60.0],
        ..Default::default()
    };
    let out = run_scenario(&sc);
    check_success(&sc, &out);
    if out.workers != 1 {
        return;
    }
    // frames A B E D A C: the outer code fails for D and C
    let s = &out.result.as_ref().unwrap()[0];
    assert_eq!(s.num_frames, 6);
    assert_eq!(s.total_iterations, 2 + 5 + 20 + 50 + 2 + 10);
    assert_eq!(s.false_decodes, 1);
    assert_eq!(s.average_iterations, 89.0 / 6.0);
    assert_eq!(s.ldpc.bit_errors, 10);
    assert_eq!(s.ldpc.frame_errors, 3);
    assert_eq!(s.ldpc.correct_iterations, 24);
    assert_eq!(s.ldpc.ber, 10.0 / (12.0 * 6.0));
    assert_eq!(s.ldpc.fer, 0.5);
    assert_eq!(s.ldpc.average_iterations_correct, 8.0);
    let bch = s.bch.as_ref().unwrap();
    assert_eq!(bch.bit_errors, 9);
    assert_eq!(bch.frame_errors, 2);
    assert_eq!(bch.correct_iterations, 29);
    assert_eq!(bch.ber, 9.0 / (12.0 * 6.0));
    assert_eq!(bch.fer, 2.0 / 6.0);
    assert_eq!(bch.average_iterations_correct, 29.0 / 4.0);
}
