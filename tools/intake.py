#!/usr/bin/env python3
"""intake.py <round> <kind> [PID...]: confirm the changes written by sub-agents under /tmp/agents/<PID>-<round>/<i>/
(three at a time, each in its own scratch worktree) and keep the confirmed ones under /verif/<kind>/<PID>-<round>-<i>/.
kind = seeded (demo must fail with the patch, pass without) | preserving (demo must pass both ways)."""
import sys, os, json, subprocess, shutil, threading, queue
rnd, kind = sys.argv[1], sys.argv[2]
pids = sys.argv[3:] or ['C08','C10','C12','C13','C16','C17','C19','C20']
want = {'seeded': 'SUITE_WITH_PATCH=pass DEMO_WITH_PATCH=fail DEMO_WITHOUT_PATCH=pass',
        'preserving': 'SUITE_WITH_PATCH=pass DEMO_WITH_PATCH=pass DEMO_WITHOUT_PATCH=pass'}[kind]
q = queue.Queue()
for pid in pids:
    src = f'/tmp/agents/{pid}-{rnd}'
    if not os.path.isdir(src): continue
    for i in sorted(os.listdir(src)):
        d = f'{src}/{i}'
        if os.path.isfile(f'{d}/patch.diff'): q.put((pid, i, d))
lock = threading.Lock()
def worker(n):
    env = dict(os.environ, CONFIRM_WT=f'/tmp/confirm-wt-{n}')
    while True:
        try: pid, i, d = q.get_nowait()
        except queue.Empty: return
        name = f'{pid}-{rnd}-{i}'
        out = subprocess.run(['/verif/seeded/confirm.sh', d], capture_output=True, text=True, env=env).stdout.strip().splitlines()[-1:]
        conf = out[0] if out else 'CONFIRM_FAILED'
        with lock:
            print(name, conf, flush=True)
            if conf != want: continue
            dst = f'/verif/{kind}/{name}'
            os.makedirs(dst, exist_ok=True)
            for f in os.listdir(d):
                if os.path.isfile(f'{d}/{f}') and f != 'suite.log': shutil.copy(f'{d}/{f}', dst)
            try: meta = json.load(open(f'{d}/meta.json'))
            except Exception: meta = {}
            meta['confirmed'] = {'how': 'seeded/confirm.sh in a scratch worktree (existing suite with the patch; the demonstration with and without it)', 'result': conf}
            json.dump(meta, open(f'{dst}/meta.json', 'w'), indent=1)
ts = [threading.Thread(target=worker, args=(n,)) for n in range(3)]
[t.start() for t in ts]; [t.join() for t in ts]
for n in range(3):
    subprocess.run(['git', '-C', '/repo', 'worktree', 'remove', '--force', f'/tmp/confirm-wt-{n}'], capture_output=True)
