#!/usr/bin/env python3
"""runmany.py <kind> [name-prefix...] : try many patches against the quick checks, LANES at a time (tools/lane.sh).
kind = seeded | preserving | own.  Updates meta.json (seeded/preserving) or sensitivity/results_<prop>.txt (own)."""
import sys, os, json, subprocess, re, glob, threading, queue
LANES, THREADS = 3, 5
kind = sys.argv[1]; prefs = sys.argv[2:] or ['']
jobs = []
if kind in ('seeded', 'preserving'):
    base = f'/verif/{kind}'
    for name in sorted(os.listdir(base)):
        d = f'{base}/{name}'
        if os.path.isfile(f'{d}/patch.diff') and any(name.startswith(p) for p in prefs):
            meta = json.load(open(f'{d}/meta.json'))
            checks = list(meta.get('checks_run', {}).keys()) or [name.split('-')[0]]
            jobs.append((name, f'{d}/patch.diff', checks))
else:
    own_checks = {'c08': ['C08'], 'c10': ['C10', 'C19'], 'c12': ['C12'], 'c13': ['C13'], 'c16': ['C16'], 'c17': ['C17'], 'c19': ['C19'], 'c20': ['C20']}
    for p in sorted(glob.glob('/verif/sensitivity/*.diff')):
        name = os.path.basename(p)[:-5]
        if any(name.startswith(x) for x in prefs):
            checks = own_checks[name[:3]] + (['C19', 'C20'] if name == 'c08_f3_reintroduced' else [])
            jobs.append((name, p, checks))
commit = subprocess.run(['git','-C','/verif','rev-parse','HEAD'],capture_output=True,text=True).stdout.strip()
q = queue.Queue()
for j in jobs: q.put(j)
lock = threading.Lock()
results = {}
def worker(lane):
    while True:
        try: name, patch, checks = q.get_nowait()
        except queue.Empty: return
        # the patch file name is shared ("patch.diff"): copy under the job's name
        tmp = f'/tmp/lanes/job-{lane}-{name}.diff'
        os.makedirs('/tmp/lanes', exist_ok=True)
        open(tmp, 'w').write(open(patch).read())
        out = subprocess.run(['/verif/tools/lane.sh', str(lane), str(THREADS), commit, tmp] + checks, capture_output=True, text=True).stdout
        os.remove(tmp)
        det = {}
        for line in out.splitlines():
            m = re.match(r'\S+ (\S+) exit=(\d+) ?(.*)', line)
            if m: det[m.group(1)] = {'exit': int(m.group(2)), 'detail': m.group(3)[:400]}
        with lock:
            results[name] = det
            print(name, {k: v['exit'] for k, v in det.items()}, flush=True)
            if kind in ('seeded', 'preserving'):
                mp = f'/verif/{kind}/{name}/meta.json'
                meta = json.load(open(mp))
                if meta.get('checks_run') and meta['checks_run'] != det:
                    if kind == 'preserving' and 'first_run' not in meta: meta['first_run'] = meta['checks_run']
                    meta.setdefault('earlier_runs', []).append(meta['checks_run'])
                meta['checks_run'] = det
                if kind == 'seeded': meta['detected'] = any(v['exit'] == 1 for v in det.values())
                else: meta['quiet'] = all(v['exit'] == 0 for v in det.values())
                json.dump(meta, open(mp, 'w'), indent=1)
base = int(os.environ.get('LANE_BASE', '0'))
ts = [threading.Thread(target=worker, args=(base + i,)) for i in range(LANES)]
[t.start() for t in ts]; [t.join() for t in ts]
if kind == 'own':
    byprop = {}
    for name, det in sorted(results.items()):
        for chk, v in det.items():
            byprop.setdefault(name[:3], []).append(f"{name}.diff {chk} exit={v['exit']} {v['detail']}")
    for prop, lines in byprop.items():
        # keep lines of mutants that were not re-run
        path = f'/verif/sensitivity/results_{prop}.txt'
        old = [l.rstrip('\n') for l in open(path)] if os.path.exists(path) else []
        rerun = {l.split()[0] + ' ' + l.split()[1] for l in lines}
        kept = [l for l in old if len(l.split()) >= 2 and (l.split()[0] + ' ' + l.split()[1]) not in rerun]
        open(path, 'w').write('\n'.join(kept + lines) + '\n')
