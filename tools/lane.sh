#!/bin/sh
# lane.sh <lane-id> <threads> <verif-commit> <patch> <ID...> : like sensitivity/try.sh, but in a private copy of /repo (a git
# worktree) and of /verif (sources only) with its own target directory, so that several patches can be tried
# at the same time. Prints one line per check: <patch> <ID> exit=<code> [first VIOLATION detail]
lane="$1"; threads="$2"; commit="$3"; patch="$4"; shift 4
L=/tmp/lanes/$lane
export CARGO_NET_OFFLINE=true
mkdir -p "$L"
if [ ! -d "$L/repo" ]; then git -C /repo worktree add --detach "$L/repo" HEAD >/dev/null 2>&1 || exit 2; fi
git -C "$L/repo" checkout -q --detach "$(git -C /repo rev-parse HEAD)" 2>/dev/null
git -C "$L/repo" reset -q --hard ; git -C "$L/repo" clean -fdq
# the committed /verif at <verif-commit> (not the working tree: edits in progress must not leak into a batch)
if [ "$(cat "$L/verif.commit" 2>/dev/null)" != "$commit" ]; then
  rm -rf "$L/verif"; mkdir -p "$L/verif"
  git -C /verif archive "$commit" -- .cargo Cargo.toml Cargo.lock dstsim shadow harness known_findings.txt | tar -x -C "$L/verif" || exit 2
  sed -i "s#/repo/#$L/repo/#g" "$L/verif/shadow/Cargo.toml"
  sed -i "s#/verif/target#$L/target#" "$L/verif/.cargo/config.toml"
  echo "$commit" > "$L/verif.commit"
fi
mkdir -p "$L/verif/evidence" "$L/verif/replays"
# (later hook commits shift the context of older patches by two lines: fall back to patch(1) with fuzz)
git -C "$L/repo" apply "$patch" 2>/dev/null || git -C "$L/repo" apply --3way "$patch" >/dev/null 2>&1 || (cd "$L/repo" && git reset -q --hard && patch -p1 -s -F 3 --no-backup-if-mismatch < "$patch" >/dev/null 2>&1) || { for id in "$@"; do echo "$(basename "$patch") $id exit=2 HARNESS-ERROR: patch does not apply"; done; git -C "$L/repo" reset -q --hard; exit 2; }
cd "$L/verif" || exit 2
if ! cargo build --release -p harness -p ldpc-toolbox --offline -q 2>"$L/build.log"; then
  for id in "$@"; do echo "$(basename "$patch") $id exit=2 HARNESS-ERROR: build failed: $(grep -m1 '^error' "$L/build.log" | cut -c1-200)"; done
  git -C "$L/repo" reset -q --hard
  exit 0
fi
for id in "$@"; do
  out=$(VERIF_DIR="$L/verif" "$L/target/release/verif" "$id" --tier quick --threads "$threads" 2>&1); code=$?
  detail=$(printf '%s\n' "$out" | grep -A1 '^VIOLATION' | head -2 | tr '\n' ' ' | cut -c1-400)
  [ $code -eq 2 ] && detail=$(printf '%s\n' "$out" | grep -i 'HARNESS-ERROR\|error' | head -3 | tr '\n' ' ' | cut -c1-400)
  echo "$(basename "$patch") $id exit=$code $detail"
done
git -C "$L/repo" reset -q --hard
