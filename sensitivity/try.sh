#!/bin/sh
# try.sh <patch> <ID> [ID...] : apply a property-breaking patch to /repo, run the quick checks, revert.
# Prints one line per check: <patch> <ID> exit=<code> [first VIOLATION detail]
patch="$1"; shift
cd /verif || exit 2
if ! git -C /repo diff --quiet; then echo "/repo is dirty" >&2; exit 2; fi
git -C /repo apply "$patch" 2>/dev/null || git -C /repo apply --3way "$patch" >/dev/null 2>&1 || (cd /repo && git reset -q --hard && patch -p1 -s -F 3 --no-backup-if-mismatch < "$patch" >/dev/null 2>&1) || { echo "cannot apply $patch" >&2; git -C /repo reset -q --hard; exit 2; }
for id in "$@"; do
  out=$(./run.sh "$id" quick 2>&1); code=$?
  detail=$(printf '%s\n' "$out" | grep -A1 '^VIOLATION' | head -2 | tr '\n' ' ' | cut -c1-400)
  [ $code -eq 2 ] && detail=$(printf '%s\n' "$out" | grep -i 'HARNESS-ERROR\|error' | head -3 | tr '\n' ' ' | cut -c1-400)
  echo "$(basename "$patch") $id exit=$code $detail"
done
git -C /repo reset -q --hard
