#!/bin/sh
# runall.sh <prefix> <ID...>: run every sensitivity/<prefix>*.diff against the given checks
prefix="$1"; shift
for p in /verif/sensitivity/${prefix}*.diff; do
  /verif/sensitivity/try.sh "$p" "$@"
done
