#!/usr/bin/env python3
"""mkmut.py <name> <file-relative-to-repo> <old> <new>  -> writes /verif/sensitivity/<name>.diff
Works in a scratch worktree (/tmp/mut-wt), so /repo's working tree is never touched."""
import sys, subprocess, os
name, f, old, new = sys.argv[1:5]
wt = '/tmp/mut-wt'
if not os.path.isdir(wt):
    subprocess.check_call(['git', '-C', '/repo', 'worktree', 'add', '--detach', wt, 'HEAD'], stdout=subprocess.DEVNULL, stderr=subprocess.DEVNULL)
head = subprocess.check_output(['git', '-C', '/repo', 'rev-parse', 'HEAD'], text=True).strip()
subprocess.check_call(['git', '-C', wt, 'checkout', '-q', '--detach', head])
subprocess.check_call(['git', '-C', wt, 'checkout', '--', '.'])
p = f'{wt}/{f}'
s = open(p).read()
if s.count(old) != 1:
    sys.exit(f"{name}: pattern occurs {s.count(old)} times in {f}")
open(p, 'w').write(s.replace(old, new))
d = subprocess.check_output(['git', '-C', wt, 'diff'], text=True)
subprocess.check_call(['git', '-C', wt, 'checkout', '--', '.'])
open(f'/verif/sensitivity/{name}.diff', 'w').write(d)
print(name, 'ok', len(d.splitlines()), 'lines')
