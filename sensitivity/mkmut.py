#!/usr/bin/env python3
"""mkmut.py <name> <file-relative-to-/repo> <old> <new>  -> writes /verif/sensitivity/<name>.diff (the /repo tree is left unchanged)"""
import sys, subprocess
name, f, old, new = sys.argv[1:5]
p = '/repo/' + f
s = open(p).read()
if s.count(old) != 1:
    sys.exit(f"{name}: pattern occurs {s.count(old)} times in {f}")
open(p, 'w').write(s.replace(old, new))
d = subprocess.check_output(['git', '-C', '/repo', 'diff'], text=True)
subprocess.check_call(['git', '-C', '/repo', 'checkout', '--', '.'])
open(f'/verif/sensitivity/{name}.diff', 'w').write(d)
print(name, 'ok', len(d.splitlines()), 'lines')
