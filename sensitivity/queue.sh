#!/bin/sh
# wait for other /repo-mutating jobs, then run all sensitivity batches
while pgrep -f "seeded/rerun.py|seeded/process.py" >/dev/null; do sleep 10; done
cd /verif/sensitivity
./runall.sh c12_ C12 > results_c12.txt 2>&1
./runall.sh c10_ C10 C19 > results_c10.txt 2>&1
./runall.sh c17_ C17 > results_c17.txt 2>&1
./runall.sh c08_ C08 > results_c08.txt 2>&1
/verif/sensitivity/try.sh /verif/sensitivity/c08_f3_reintroduced.diff C19 C20 >> results_c08.txt 2>&1
./runall.sh c16_ C16 > results_c16.txt 2>&1
./runall.sh c19_ C19 > results_c19.txt 2>&1
./runall.sh c20_ C20 > results_c20.txt 2>&1
echo ALLDONE > results_done.txt
